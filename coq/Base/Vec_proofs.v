(* Base/Vec_proofs.v -- vector identities on the real reading. *)
From Coq Require Import Reals ZArith List Lra Lia.
From SCAD Require Import Base.Num Base.NumR Base.Vec.
Import ListNotations.
Local Open Scope R_scope.

Notation P2 := (pt2 R). Notation P3 := (pt3 R). Notation P4 := (pt4 R).

Ltac vunfold :=
  unfold pt2_neg, pt2_add_assign, pt2_sub_assign, pt2_mul_assign, pt2_div_assign,
    pt2_normalize, pt2_normalized, pt2_len, pt2_len2, pt2_lerp, pt2_rotate, pt2_rotated,
    pt2_to_xz, pt2_as_pt3, pt2_dot, pt2_add, pt2_sub, pt2_mul, pt2_div,
    pt3_neg, pt3_add_assign, pt3_sub_assign, pt3_mul_assign, pt3_div_assign,
    pt3_normalize, pt3_normalized, pt3_len, pt3_len2, pt3_lerp, pt3_cross, pt3_dot,
    pt3_rotate_x, pt3_rotate_y, pt3_rotate_z, pt3_rotated_x, pt3_rotated_y, pt3_rotated_z,
    pt3_as_pt4, pt3_add, pt3_sub, pt3_mul, pt3_div,
    pt4_neg, pt4_add_assign, pt4_sub_assign, pt4_mul_assign, pt4_div_assign,
    pt4_normalize, pt4_normalized, pt4_len, pt4_len2, pt4_lerp, pt4_cross, pt4_dot,
    pt4_as_pt3, pt4_add, pt4_sub, pt4_mul, pt4_div,
    dsin, dcos, dtan, to_radians in *;
  cbn [x2 y2 x3 y3 z3 x4 y4 z4 w4] in *; rnum.

(* ---- component-wise arithmetic ---- *)
Lemma pt2_add_c (a b : P2) : pt2_add a b = Pt2 (x2 a + x2 b) (y2 a + y2 b). Proof. reflexivity. Qed.
Lemma pt2_sub_c (a b : P2) : pt2_sub a b = Pt2 (x2 a - x2 b) (y2 a - y2 b). Proof. reflexivity. Qed.
Lemma pt2_mul_c (a : P2) k : pt2_mul a k = Pt2 (x2 a * k) (y2 a * k). Proof. reflexivity. Qed.
Lemma pt2_div_c (a : P2) k : pt2_div a k = Pt2 (x2 a / k) (y2 a / k). Proof. reflexivity. Qed.
Lemma pt2_neg_c (a : P2) : pt2_neg a = Pt2 (- x2 a) (- y2 a).
Proof. vunfold. f_equal; ring. Qed.
Lemma pt3_add_c (a b : P3) : pt3_add a b = Pt3 (x3 a + x3 b) (y3 a + y3 b) (z3 a + z3 b). Proof. reflexivity. Qed.
Lemma pt3_sub_c (a b : P3) : pt3_sub a b = Pt3 (x3 a - x3 b) (y3 a - y3 b) (z3 a - z3 b). Proof. reflexivity. Qed.
Lemma pt3_mul_c (a : P3) k : pt3_mul a k = Pt3 (x3 a * k) (y3 a * k) (z3 a * k). Proof. reflexivity. Qed.
Lemma pt3_div_c (a : P3) k : pt3_div a k = Pt3 (x3 a / k) (y3 a / k) (z3 a / k). Proof. reflexivity. Qed.
Lemma pt3_neg_c (a : P3) : pt3_neg a = Pt3 (- x3 a) (- y3 a) (- z3 a).
Proof. vunfold. f_equal; ring. Qed.
Lemma pt4_add_c (a b : P4) :
  pt4_add a b = Pt4 (x4 a + x4 b) (y4 a + y4 b) (z4 a + z4 b) (w4 a + w4 b). Proof. reflexivity. Qed.
Lemma pt4_sub_c (a b : P4) :
  pt4_sub a b = Pt4 (x4 a - x4 b) (y4 a - y4 b) (z4 a - z4 b) (w4 a - w4 b). Proof. reflexivity. Qed.
Lemma pt4_mul_c (a : P4) k : pt4_mul a k = Pt4 (x4 a * k) (y4 a * k) (z4 a * k) (w4 a * k). Proof. reflexivity. Qed.
Lemma pt4_div_c (a : P4) k : pt4_div a k = Pt4 (x4 a / k) (y4 a / k) (z4 a / k) (w4 a / k). Proof. reflexivity. Qed.
Lemma pt4_neg_c (a : P4) : pt4_neg a = Pt4 (- x4 a) (- y4 a) (- z4 a) (- w4 a).
Proof. vunfold. f_equal; ring. Qed.

(* operators agree with each other *)
Lemma pt2_sub_add_neg (a b : P2) : pt2_sub a b = pt2_add a (pt2_neg b).
Proof. rewrite pt2_neg_c. vunfold. f_equal; ring. Qed.
Lemma pt3_sub_add_neg (a b : P3) : pt3_sub a b = pt3_add a (pt3_neg b).
Proof. rewrite pt3_neg_c. vunfold. f_equal; ring. Qed.
Lemma pt4_sub_add_neg (a b : P4) : pt4_sub a b = pt4_add a (pt4_neg b).
Proof. rewrite pt4_neg_c. vunfold. f_equal; ring. Qed.
Lemma pt2_div_mul_inv (a : P2) k : k <> 0 -> pt2_div a k = pt2_mul a (/ k).
Proof. intros. vunfold. f_equal; field; assumption. Qed.
Lemma pt3_div_mul_inv (a : P3) k : k <> 0 -> pt3_div a k = pt3_mul a (/ k).
Proof. intros. vunfold. f_equal; field; assumption. Qed.
Lemma pt4_div_mul_inv (a : P4) k : k <> 0 -> pt4_div a k = pt4_mul a (/ k).
Proof. intros. vunfold. f_equal; field; assumption. Qed.
Lemma pt3_mul_div_cancel (a : P3) k : k <> 0 -> pt3_div (pt3_mul a k) k = a.
Proof. intros. destruct a. vunfold. f_equal; field; assumption. Qed.

(* ---- indexing ---- *)
Lemma pt2_index_spec (p : P2) i :
  pt2_index p i = match i with 0%Z => Some (x2 p) | 1%Z => Some (y2 p) | _ => None end.
Proof. reflexivity. Qed.
Lemma pt3_index_spec (p : P3) i :
  pt3_index p i = match i with 0%Z => Some (x3 p) | 1%Z => Some (y3 p) | 2%Z => Some (z3 p) | _ => None end.
Proof. reflexivity. Qed.
Lemma pt4_index_spec (p : P4) i :
  pt4_index p i = match i with 0%Z => Some (x4 p) | 1%Z => Some (y4 p) | 2%Z => Some (z4 p)
                             | 3%Z => Some (w4 p) | _ => None end.
Proof. reflexivity. Qed.
(* write then read gives the value; other slots unchanged; out of range = panic on both *)
Lemma pt2_index_set_get (p p' : P2) i v :
  pt2_index_set p i v = Some p' ->
  forall j, pt2_index p' j = if Z.eqb j i then Some v else pt2_index p j.
Proof.
  intros Hs j. destruct p as [x y].
  destruct i as [|[ | |]|]; try discriminate Hs; inversion Hs; subst; clear Hs;
  destruct j as [|[ | |]|]; reflexivity.
Qed.
Lemma pt3_index_set_get (p p' : P3) i v :
  pt3_index_set p i v = Some p' ->
  forall j, pt3_index p' j = if Z.eqb j i then Some v else pt3_index p j.
Proof.
  intros Hs j. destruct p as [x y z].
  destruct i as [|[[ | |]|[ | |]|]|]; try discriminate Hs; inversion Hs; subst; clear Hs;
  destruct j as [|[[ | |]|[ | |]|]|]; reflexivity.
Qed.
Lemma pt4_index_set_get (p p' : P4) i v :
  pt4_index_set p i v = Some p' ->
  forall j, pt4_index p' j = if Z.eqb j i then Some v else pt4_index p j.
Proof.
  intros Hs j. destruct p as [x y z w].
  destruct i as [|[[ | |]|[ | |]|]|]; try discriminate Hs; inversion Hs; subst; clear Hs;
  destruct j as [|[[ | |]|[ | |]|]|]; reflexivity.
Qed.
Lemma pt2_index_set_defined (p : P2) i v :
  (exists p', pt2_index_set p i v = Some p') <-> (0 <= i < 2)%Z.
Proof. split.
  - intros [p' Hs]. destruct i as [|[ | |]|]; try discriminate Hs; lia.
  - intros Hi. assert (i = 0 \/ i = 1)%Z as [-> | ->] by lia; eexists; reflexivity.
Qed.
Lemma pt3_index_set_defined (p : P3) i v :
  (exists p', pt3_index_set p i v = Some p') <-> (0 <= i < 3)%Z.
Proof. split.
  - intros [p' Hs]. destruct i as [|[[ | |]|[ | |]|]|]; try discriminate Hs; lia.
  - intros Hi. assert (i = 0 \/ i = 1 \/ i = 2)%Z as [-> | [-> | ->]] by lia; eexists; reflexivity.
Qed.
Lemma pt4_index_set_defined (p : P4) i v :
  (exists p', pt4_index_set p i v = Some p') <-> (0 <= i < 4)%Z.
Proof. split.
  - intros [p' Hs]. destruct i as [|[[ | |]|[ | |]|]|]; try discriminate Hs; lia.
  - intros Hi. assert (i = 0 \/ i = 1 \/ i = 2 \/ i = 3)%Z as [-> | [-> | [-> | ->]]] by lia; eexists; reflexivity.
Qed.

(* ---- dot / cross / len ---- *)
Lemma pt2_dot_spec (a b : P2) : pt2_dot a b = x2 a * x2 b + y2 a * y2 b. Proof. reflexivity. Qed.
Lemma pt3_dot_spec (a b : P3) : pt3_dot a b = x3 a * x3 b + y3 a * y3 b + z3 a * z3 b. Proof. reflexivity. Qed.
Lemma pt4_dot_xyz (a b : P4) : pt4_dot a b = pt3_dot (pt4_as_pt3 a) (pt4_as_pt3 b). Proof. reflexivity. Qed.
Lemma pt4_cross_xyz (a b : P4) :
  pt4_as_pt3 (pt4_cross a b) = pt3_cross (pt4_as_pt3 a) (pt4_as_pt3 b) /\ w4 (pt4_cross a b) = 0.
Proof. split; reflexivity. Qed.
Lemma pt4_len_xyz (a : P4) : pt4_len a = pt3_len (pt4_as_pt3 a). Proof. reflexivity. Qed.
Lemma pt4_normalized_xyz (a : P4) :
  pt4_as_pt3 (pt4_normalized a) = pt3_normalized (pt4_as_pt3 a) /\ w4 (pt4_normalized a) = 0.
Proof. split; reflexivity. Qed.

Lemma pt3_cross_perp_l (a b : P3) : pt3_dot (pt3_cross a b) a = 0.
Proof. vunfold. ring. Qed.
Lemma pt3_cross_perp_r (a b : P3) : pt3_dot (pt3_cross a b) b = 0.
Proof. vunfold. ring. Qed.
Lemma pt3_lagrange (a b : P3) :
  pt3_len2 (pt3_cross a b) = pt3_len2 a * pt3_len2 b - pt3_dot a b * pt3_dot a b.
Proof. vunfold. ring. Qed.
Lemma pt3_cross_anticomm (a b : P3) : pt3_cross a b = pt3_neg (pt3_cross b a).
Proof. rewrite pt3_neg_c. vunfold. f_equal; ring. Qed.

Lemma pt2_len2_dot (a : P2) : pt2_len2 a = pt2_dot a a. Proof. reflexivity. Qed.
Lemma pt3_len2_dot (a : P3) : pt3_len2 a = pt3_dot a a. Proof. reflexivity. Qed.
Lemma pt2_len2_nonneg (a : P2) : 0 <= pt2_len2 a.
Proof. vunfold. nra. Qed.
Lemma pt3_len2_nonneg (a : P3) : 0 <= pt3_len2 a.
Proof. vunfold. nra. Qed.
Lemma pt2_len_sq (a : P2) : pt2_len a * pt2_len a = pt2_len2 a.
Proof. unfold pt2_len. rnum. apply sqrt_sqrt, pt2_len2_nonneg. Qed.
Lemma pt3_len_sq (a : P3) : pt3_len a * pt3_len a = pt3_len2 a.
Proof. unfold pt3_len. rnum. apply sqrt_sqrt, pt3_len2_nonneg. Qed.
Lemma pt2_len_nonneg (a : P2) : 0 <= pt2_len a.
Proof. unfold pt2_len. rnum. apply sqrt_pos. Qed.
Lemma pt3_len_nonneg (a : P3) : 0 <= pt3_len a.
Proof. unfold pt3_len. rnum. apply sqrt_pos. Qed.

Definition pt2_nonzero (a : P2) := x2 a <> 0 \/ y2 a <> 0.
Definition pt3_nonzero (a : P3) := x3 a <> 0 \/ y3 a <> 0 \/ z3 a <> 0.

Lemma pt2_len_pos (a : P2) : pt2_nonzero a -> 0 < pt2_len a.
Proof.
  intros Hn. unfold pt2_len. rnum. apply sqrt_lt_R0. vunfold.
  destruct Hn as [Hn | Hn]; nra.
Qed.
Lemma pt3_len_pos (a : P3) : pt3_nonzero a -> 0 < pt3_len a.
Proof.
  intros Hn. unfold pt3_len. rnum. apply sqrt_lt_R0. vunfold.
  destruct Hn as [Hn | [Hn | Hn]]; nra.
Qed.

(* normalized: length 1, same direction (a positive multiple of a) *)
Lemma pt2_normalized_dir (a : P2) : pt2_nonzero a ->
  pt2_normalized a = pt2_mul a (/ pt2_len a) /\ 0 < / pt2_len a.
Proof.
  intros Hn. pose proof (pt2_len_pos a Hn) as Hl. split.
  - unfold pt2_normalized, pt2_mul. rnum. f_equal; unfold Rdiv; ring.
  - apply Rinv_0_lt_compat; assumption.
Qed.
Lemma pt3_normalized_dir (a : P3) : pt3_nonzero a ->
  pt3_normalized a = pt3_mul a (/ pt3_len a) /\ 0 < / pt3_len a.
Proof.
  intros Hn. pose proof (pt3_len_pos a Hn) as Hl. split.
  - unfold pt3_normalized, pt3_mul. rnum. f_equal; unfold Rdiv; ring.
  - apply Rinv_0_lt_compat; assumption.
Qed.
Lemma pt2_normalized_len1 (a : P2) : pt2_nonzero a -> pt2_len (pt2_normalized a) = 1.
Proof.
  intros Hn. pose proof (pt2_len_pos a Hn) as Hl. pose proof (pt2_len_sq a) as Hs.
  unfold pt2_len at 1. rnum. rewrite <- sqrt_1. f_equal.
  unfold pt2_normalized, pt2_len2, pt2_dot. cbn [x2 y2]. rnum.
  set (l := pt2_len a) in *.
  replace (x2 a / l * (x2 a / l) + y2 a / l * (y2 a / l)) with (pt2_len2 a / (l * l)).
  - rewrite Hs. field. rewrite <- Hs. nra.
  - unfold pt2_len2, pt2_dot. rnum. field. lra.
Qed.
Lemma pt3_normalized_len1 (a : P3) : pt3_nonzero a -> pt3_len (pt3_normalized a) = 1.
Proof.
  intros Hn. pose proof (pt3_len_pos a Hn) as Hl. pose proof (pt3_len_sq a) as Hs.
  unfold pt3_len at 1. rnum. rewrite <- sqrt_1. f_equal.
  unfold pt3_normalized, pt3_len2, pt3_dot. cbn [x3 y3 z3]. rnum.
  set (l := pt3_len a) in *.
  replace (x3 a / l * (x3 a / l) + y3 a / l * (y3 a / l) + z3 a / l * (z3 a / l))
    with (pt3_len2 a / (l * l)).
  - rewrite Hs. field. rewrite <- Hs. nra.
  - unfold pt3_len2, pt3_dot. rnum. field. lra.
Qed.
(* in-place normalize agrees with normalized on Pt2/Pt3 *)
Lemma pt2_normalize_normalized (a : P2) : pt2_normalize a = pt2_normalized a. Proof. reflexivity. Qed.
Lemma pt3_normalize_normalized (a : P3) : pt3_normalize a = pt3_normalized a. Proof. reflexivity. Qed.

(* lerp *)
Lemma pt2_lerp_0 (a b : P2) : pt2_lerp a b 0 = a.
Proof. destruct a, b. vunfold. f_equal; ring. Qed.
Lemma pt2_lerp_1 (a b : P2) : pt2_lerp a b 1 = b.
Proof. destruct a, b. vunfold. f_equal; ring. Qed.
Lemma pt3_lerp_0 (a b : P3) : pt3_lerp a b 0 = a.
Proof. destruct a, b. vunfold. f_equal; ring. Qed.
Lemma pt3_lerp_1 (a b : P3) : pt3_lerp a b 1 = b.
Proof. destruct a, b. vunfold. f_equal; ring. Qed.
Lemma pt4_lerp_0 (a b : P4) : pt4_lerp a b 0 = a.
Proof. destruct a, b. vunfold. f_equal; ring. Qed.
Lemma pt4_lerp_1 (a b : P4) : pt4_lerp a b 1 = b.
Proof. destruct a, b. vunfold. f_equal; ring. Qed.
Lemma pt3_lerp_affine (a b : P3) t :
  pt3_lerp a b t = pt3_add (pt3_mul a (1 - t)) (pt3_mul b t).
Proof. vunfold. f_equal; ring. Qed.

(* ---- list wrappers: every element and only the elements ---- *)
Lemma pt2s_translate_spec (l : list P2) p :
  length (pt2s_translate l p) = length l /\
  forall i d, nth i (pt2s_translate l p) (pt2_add d p) = pt2_add (nth i l d) p.
Proof. split; [apply map_length | intros; unfold pt2s_translate; apply (map_nth (fun q => pt2_add q p))]. Qed.
Lemma pt2s_rotate_spec (l : list P2) a :
  length (pt2s_rotate l a) = length l /\
  forall i d, nth i (pt2s_rotate l a) (pt2_rotate d a) = pt2_rotate (nth i l d) a.
Proof. split; [apply map_length | intros; unfold pt2s_rotate; apply (map_nth (fun q => pt2_rotate q a))]. Qed.
Lemma pt3s_translate_spec (l : list P3) p :
  length (pt3s_translate l p) = length l /\
  forall i d, nth i (pt3s_translate l p) (pt3_add d p) = pt3_add (nth i l d) p.
Proof. split; [apply map_length | intros; unfold pt3s_translate; apply (map_nth (fun q => pt3_add q p))]. Qed.
Lemma pt3s_rotate_x_spec (l : list P3) a :
  length (pt3s_rotate_x l a) = length l /\
  forall i d, nth i (pt3s_rotate_x l a) (pt3_rotate_x d a) = pt3_rotate_x (nth i l d) a.
Proof. split; [apply map_length | intros; unfold pt3s_rotate_x; apply (map_nth (fun q => pt3_rotate_x q a))]. Qed.
Lemma pt3s_rotate_y_spec (l : list P3) a :
  length (pt3s_rotate_y l a) = length l /\
  forall i d, nth i (pt3s_rotate_y l a) (pt3_rotate_y d a) = pt3_rotate_y (nth i l d) a.
Proof. split; [apply map_length | intros; unfold pt3s_rotate_y; apply (map_nth (fun q => pt3_rotate_y q a))]. Qed.
Lemma pt3s_rotate_z_spec (l : list P3) a :
  length (pt3s_rotate_z l a) = length l /\
  forall i d, nth i (pt3s_rotate_z l a) (pt3_rotate_z d a) = pt3_rotate_z (nth i l d) a.
Proof. split; [apply map_length | intros; unfold pt3s_rotate_z; apply (map_nth (fun q => pt3_rotate_z q a))]. Qed.
Lemma pt3s_from_pt2s_spec (l : list P2) z :
  length (pt3s_from_pt2s l z) = length l /\
  forall i d, nth i (pt3s_from_pt2s l z) (pt2_as_pt3 d z) = Pt3 (x2 (nth i l d)) (y2 (nth i l d)) z.
Proof. split; [apply map_length | intros; unfold pt3s_from_pt2s; rewrite (map_nth (fun p => pt2_as_pt3 p z)); reflexivity]. Qed.

(* ---- conversions keep coordinates in the named slots ---- *)
Lemma pt2_as_pt3_slots (a : P2) z : pt2_as_pt3 a z = Pt3 (x2 a) (y2 a) z. Proof. reflexivity. Qed.
Lemma pt2_to_xz_slots (a : P2) : pt2_to_xz a = Pt3 (x2 a) 0 (y2 a). Proof. reflexivity. Qed.
Lemma pt3_as_pt4_slots (a : P3) w : pt3_as_pt4 a w = Pt4 (x3 a) (y3 a) (z3 a) w. Proof. reflexivity. Qed.
Lemma pt4_as_pt3_slots (a : P4) : pt4_as_pt3 a = Pt3 (x4 a) (y4 a) (z4 a). Proof. reflexivity. Qed.
