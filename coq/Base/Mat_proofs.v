(* Base/Mat_proofs.v -- 4x4 matrix algebra of the Mt4 model on the real reading (C09). *)
From Coq Require Import Reals ZArith List Lra Lia.
From SCAD Require Import Base.Num Base.NumR Base.Vec Base.Vec_proofs Gen.Mt4Cof Base.Mat.
Import ListNotations.
Local Open Scope R_scope.

Notation M4 := (mt4 R).

Ltac mred := lazy beta iota zeta delta
  [mt4_mul mt4_mul_pt4 mt4_mul_pt3 mt4_transposed mt4_identity mt4_of_fun dot4 mt4_det mt4_cof mt4_get
   mt4_inverse mt4_scale_matrix mt4_translate_matrix pt3s_apply_matrix
   pt3_as_pt4 pt4_as_pt3 pt3_dot pt3_add
   mx my mz mw x4 y4 z4 w4 x3 y3 z3 nadd nmul nsub ndiv nneg none_ nzero neqb NumR].
Ltac munfold := mred.

Ltac mdestruct m :=
  let e0 := fresh "e" in let e1 := fresh "e" in let e2 := fresh "e" in let e3 := fresh "e" in let e4 := fresh "e" in let e5 := fresh "e" in let e6 := fresh "e" in let e7 := fresh "e" in let e8 := fresh "e" in let e9 := fresh "e" in let e10 := fresh "e" in let e11 := fresh "e" in let e12 := fresh "e" in let e13 := fresh "e" in let e14 := fresh "e" in let e15 := fresh "e" in
  destruct m as [[e0 e1 e2 e3] [e4 e5 e6 e7] [e8 e9 e10 e11] [e12 e13 e14 e15]].

Ltac meq := repeat (f_equal; try ring).

Lemma mt4_mul_identity_l (m : M4) : mt4_mul mt4_identity m = m.
Proof. mdestruct m. munfold. f_equal; f_equal; ring. Qed.
Lemma mt4_mul_identity_r (m : M4) : mt4_mul m mt4_identity = m.
Proof. mdestruct m. munfold. f_equal; f_equal; ring. Qed.
Lemma mt4_identity_pt (p : P4) : mt4_mul_pt4 mt4_identity p = p.
Proof. destruct p as [p0 p1 p2 p3]. munfold. f_equal; ring. Qed.
Lemma mt4_mul_assoc (a b c : M4) : mt4_mul (mt4_mul a b) c = mt4_mul a (mt4_mul b c).
Proof. mdestruct a. mdestruct b. mdestruct c. munfold. f_equal; f_equal; ring. Qed.
Lemma mt4_mul_pt_assoc (a b : M4) (p : P4) :
  mt4_mul_pt4 (mt4_mul a b) p = mt4_mul_pt4 a (mt4_mul_pt4 b p).
Proof. mdestruct a. mdestruct b. destruct p as [p0 p1 p2 p3]. munfold. f_equal; ring. Qed.
Lemma mt4_transposed_invol (m : M4) : mt4_transposed (mt4_transposed m) = m.
Proof. mdestruct m. reflexivity. Qed.
Lemma mt4_transposed_mul (a b : M4) :
  mt4_transposed (mt4_mul a b) = mt4_mul (mt4_transposed b) (mt4_transposed a).
Proof. mdestruct a. mdestruct b. munfold. f_equal; f_equal; ring. Qed.

(* the matrix acts on a homogeneous point as the textbook row-by-column product *)
Lemma mt4_mul_pt4_spec (m : M4) (p : P4) :
  mt4_mul_pt4 m p =
  Pt4 (x4 (mx m) * x4 p + x4 (my m) * y4 p + x4 (mz m) * z4 p + x4 (mw m) * w4 p)
      (y4 (mx m) * x4 p + y4 (my m) * y4 p + y4 (mz m) * z4 p + y4 (mw m) * w4 p)
      (z4 (mx m) * x4 p + z4 (my m) * y4 p + z4 (mz m) * z4 p + z4 (mw m) * w4 p)
      (w4 (mx m) * x4 p + w4 (my m) * y4 p + w4 (mz m) * z4 p + w4 (mw m) * w4 p).
Proof. mdestruct m. destruct p as [p0 p1 p2 p3]. munfold. reflexivity. Qed.
(* columns of a product are the left factor applied to the columns of the right factor *)
Lemma mt4_mul_columns (a b : M4) :
  mt4_mul a b = Mt4 (mt4_mul_pt4 a (mx b)) (mt4_mul_pt4 a (my b)) (mt4_mul_pt4 a (mz b)) (mt4_mul_pt4 a (mw b)).
Proof. reflexivity. Qed.

Lemma mt4_translate_point (tx ty tz : R) (p : P3) :
  mt4_mul_pt4 (mt4_translate_matrix tx ty tz) (pt3_as_pt4 p 1) = Pt4 (x3 p + tx) (y3 p + ty) (z3 p + tz) 1.
Proof. destruct p as [p0 p1 p2 p3]. munfold. f_equal; ring. Qed.
Lemma mt4_translate_direction (tx ty tz : R) (p : P3) :
  mt4_mul_pt4 (mt4_translate_matrix tx ty tz) (pt3_as_pt4 p 0) = pt3_as_pt4 p 0.
Proof. destruct p as [p0 p1 p2 p3]. munfold. f_equal; ring. Qed.
Lemma mt4_scale_acts (sx sy sz : R) (p : P4) :
  mt4_mul_pt4 (mt4_scale_matrix sx sy sz) p = Pt4 (sx * x4 p) (sy * y4 p) (sz * z4 p) (w4 p).
Proof. destruct p as [p0 p1 p2 p3]. munfold. f_equal; ring. Qed.
Lemma mt4_mul_pt3_linear (m : M4) (p : P3) :
  mt4_mul_pt3 m p = pt4_as_pt3 (mt4_mul_pt4 m (pt3_as_pt4 p 0)).
Proof. mdestruct m. destruct p as [p0 p1 p2]. mred. f_equal; ring. Qed.
(* apply_matrix is the full affine map: linear part plus the translation column *)
Lemma pt3s_apply_matrix_affine (l : list P3) (m : M4) :
  pt3s_apply_matrix l m = map (fun p => pt3_add (mt4_mul_pt3 m p) (pt4_as_pt3 (mw m))) l.
Proof.
  unfold pt3s_apply_matrix. apply map_ext. intros p. mdestruct m. destruct p as [p0 p1 p2]. mred.
  f_equal; ring.
Qed.
Lemma pt3s_apply_matrix_length (l : list P3) (m : M4) : length (pt3s_apply_matrix l m) = length l.
Proof. apply map_length. Qed.

(* indexing 0..15 addresses the entries column by column *)
Lemma mt4_index_column_major (m : M4) (c r : Z) :
  (0 <= c < 4)%Z -> (0 <= r < 4)%Z ->
  mt4_index m (4 * c + r) =
  pt4_index (match c with 0%Z => mx m | 1%Z => my m | 2%Z => mz m | _ => mw m end) r.
Proof.
  intros Hc Hr.
  assert (c = 0 \/ c = 1 \/ c = 2 \/ c = 3)%Z as [-> | [-> | [-> | ->]]] by lia;
  assert (r = 0 \/ r = 1 \/ r = 2 \/ r = 3)%Z as [-> | [-> | [-> | ->]]] by lia; reflexivity.
Qed.
Lemma mt4_index_range (m : M4) i : (exists v, mt4_index m i = Some v) <-> (0 <= i < 16)%Z.
Proof.
  unfold mt4_index. destruct (Z.leb_spec 0 i), (Z.ltb_spec i 16); cbn; split; intros H'; try lia;
  try (destruct H' as [v Hv]; discriminate); eexists; reflexivity.
Qed.
Lemma mt4_index_set_get (m m' : M4) i v :
  mt4_index_set m i v = Some m' -> forall j, (0 <= j < 16)%Z ->
  mt4_index m' j = if Z.eqb j i then Some v else mt4_index m j.
Proof.
  unfold mt4_index_set, mt4_index. intros Hs j Hj.
  destruct ((0 <=? i)%Z && (i <? 16)%Z)%bool eqn:Hi; [|discriminate]. inversion Hs; subst; clear Hs.
  replace ((0 <=? j)%Z && (j <? 16)%Z)%bool with true
    by (symmetry; apply andb_true_intro; split; [apply Z.leb_le | apply Z.ltb_lt]; lia).
  assert (j = 0 \/ j = 1 \/ j = 2 \/ j = 3 \/ j = 4 \/ j = 5 \/ j = 6 \/ j = 7 \/ j = 8 \/ j = 9 \/
          j = 10 \/ j = 11 \/ j = 12 \/ j = 13 \/ j = 14 \/ j = 15)%Z as Hc by lia.
  repeat (destruct Hc as [-> | Hc]); try subst j; cbn [mt4_of_fun mt4_get mx my mz mw x4 y4 z4 w4];
  match goal with |- context [Z.eqb ?a i] => destruct (Z.eqb a i) end; reflexivity.
Qed.

(* ---- inverse ---- *)
Definition mt4_determinant (m : M4) : R := mt4_det (mt4_get m) (mt4_cof (mt4_get m)).

Lemma mt4_inverse_none_iff (m : M4) : mt4_inverse m = None <-> mt4_determinant m = 0.
Proof.
  unfold mt4_inverse, mt4_determinant. cbn [neqb nzero NumR].
  destruct (Reqb (mt4_det (mt4_get m) (mt4_cof (mt4_get m))) 0) eqn:E.
  - apply Reqb_true in E. split; intros; [assumption | reflexivity].
  - apply Reqb_false in E. split; intros H; [discriminate | contradiction].
Qed.

Ltac inv_setup m m' E :=
  mdestruct m; mred; intros Hinv;
  match type of Hinv with context [Reqb ?d 0] => destruct (Reqb d 0) eqn:E; [discriminate|] end;
  apply Reqb_false in E; inversion Hinv; subst m'; clear Hinv; mred.

Lemma mt4_inverse_left (m m' : M4) : mt4_inverse m = Some m' -> mt4_mul m' m = mt4_identity.
Proof. inv_setup m m' E. f_equal; f_equal; field; exact E. Qed.
Lemma mt4_inverse_right (m m' : M4) : mt4_inverse m = Some m' -> mt4_mul m m' = mt4_identity.
Proof. inv_setup m m' E. f_equal; f_equal; field; exact E. Qed.

(* the determinant computed by the code is the determinant: multiplicative and 1 on identity *)
Lemma mt4_determinant_identity : mt4_determinant mt4_identity = 1.
Proof. unfold mt4_determinant. mred. ring. Qed.
Lemma mt4_determinant_mul (a b : M4) : mt4_determinant (mt4_mul a b) = mt4_determinant a * mt4_determinant b.
Proof.
  mdestruct a. mdestruct b. unfold mt4_determinant. mred. ring.
Qed.
