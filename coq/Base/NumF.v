(* Base/NumF.v -- the binary64 reading (what the Rust computes).
   + - * / sqrt abs and comparisons are Coq's primitive IEEE-754 binary64.
   libm's sin/cos/... are not modelled: their values come from a per-case table
   logged by the implementation (hook scad_tree_math::verif); a miss yields nan,
   which can never compare equal to an implementation result, so it shows up as a
   correspondence failure rather than passing silently. *)
From Coq Require Import Floats ZArith List Uint63.
From SCAD Require Import Base.Num.
Import ListNotations.

Definition F_ofZ (z : Z) : float :=
  match z with
  | Z0 => 0%float
  | Zpos _ => PrimFloat.of_uint63 (Uint63.of_Z z)
  | Zneg p => PrimFloat.opp (PrimFloat.of_uint63 (Uint63.of_Z (Zpos p)))
  end.

(* Rust `f as usize`: toward zero, NaN -> 0, negative -> 0 is NOT applied here
   (callers only cast non-negative values; negative results are kept so a
   model/implementation difference is visible). *)
Definition F_trunc (f : float) : Z :=
  match Prim2SF f with
  | S754_finite s m e =>
      let a := match e with
               | Z0 => Zpos m
               | Zpos p => (Zpos m * 2 ^ Zpos p)%Z
               | Zneg p => (Zpos m / 2 ^ Zpos p)%Z
               end in
      if s then (- a)%Z else a
  | _ => 0%Z
  end.

(* trig table entry: (function id, argument in radians, result) *)
Definition trig_entry := (Z * float * float)%type.
Definition trig_table := list trig_entry.

(* keys are compared with Leibniz-like equality on floats: same sign of zero matters
   for atan/sin results' sign, so compare via eqb plus sign of 1/x for zeros *)
Definition F_same (a b : float) : bool :=
  match PrimFloat.compare a b with
  | FEq => PrimFloat.eqb (1 / a) (1 / b)
  | _ => false
  end.

Fixpoint trig_lookup (tbl : trig_table) (fn : Z) (x : float) : float :=
  match tbl with
  | [] => nan
  | (g, a, r) :: tl => if (Z.eqb g fn && F_same a x)%bool then r else trig_lookup tl fn x
  end.

Definition F_pi180 : float := 0x1.1df46a2529d39p-6%float.   (* 0.017453292519943295 *)
Definition F_180pi : float := 0x1.ca5dc1a63c1f8p+5%float.   (* 57.29577951308232 *)

Definition NumF (tbl : trig_table) : Num float := {|
  nzero := 0%float; none_ := 1%float;
  nadd := PrimFloat.add; nsub := PrimFloat.sub; nmul := PrimFloat.mul; ndiv := PrimFloat.div;
  nneg := PrimFloat.opp; nabs := PrimFloat.abs; nsqrt := PrimFloat.sqrt;
  nltb := PrimFloat.ltb; nleb := PrimFloat.leb; neqb := PrimFloat.eqb;
  nofZ := F_ofZ; ntrunc := F_trunc;
  npi180 := F_pi180; n180pi := F_180pi;
  nsin := trig_lookup tbl 0; ncos := trig_lookup tbl 1; ntan := trig_lookup tbl 2;
  nasin := trig_lookup tbl 3; nacos := trig_lookup tbl 4; natan := trig_lookup tbl 5
|}.

(* comparison helpers used by the correspondence verdicts *)
Definition F_bits_eq (a b : float) : bool :=
  match PrimFloat.compare a b with
  | FEq => PrimFloat.eqb (1 / a) (1 / b)
  | FNotComparable => (negb (PrimFloat.eqb a a) && negb (PrimFloat.eqb b b))%bool  (* both nan *)
  | _ => false
  end.

(* |a-b| <= tol * (1 + |a| + |b|) *)
Definition F_close (tol a b : float) : bool :=
  (F_bits_eq a b ||
   PrimFloat.leb (PrimFloat.abs (a - b)) (tol * (1 + PrimFloat.abs a + PrimFloat.abs b)))%bool%float.
