(* Parts/Thread_mesh_proofs.v -- every vertex of the thread mesh lies between the minor and the major radius and at
   z >= 0; the helix advances one pitch per revolution up to the rounding of the step count. Over R. (C16) *)
From Coq Require Import Reals ZArith List Bool Lra Lia.
From SCAD Require Import Base.Num Base.NumR Base.Trig_proofs Base.Vec Text.Chars Text.Tree Parts.Thread.
Import ListNotations.
Local Open Scope R_scope.

Section Mesh.
  Variables (d_min d_maj pitch : R).
  Hypothesis Hd : 0 <= d_min <= d_maj.
  Hypothesis Hp : 0 <= pitch.
  Notation P3 := (pt3 R).

  (* the box of the thread section: x between the two radii, y = 0, z within one pitch *)
  Definition inbox (p : P3) : Prop := d_min / 2 <= x3 p <= d_maj / 2 /\ y3 p = 0 /\ 0 <= z3 p <= pitch.
  (* what the property asks of a vertex *)
  Definition vok (v : P3) : Prop :=
    (d_min / 2) * (d_min / 2) <= x3 v * x3 v + y3 v * y3 v <= (d_maj / 2) * (d_maj / 2) /\ 0 <= z3 v.

  Lemma inbox_vok p : inbox p -> vok p.
  Proof. intros ((H1 & H2) & Hy & (H3 & H4)). unfold vok. rewrite Hy. split; [|exact H3]. nra. Qed.

  Lemma tlerp_box (s e : P3) (n i : Z) : inbox s -> inbox e -> (0 < n)%Z -> (0 <= i <= n)%Z -> inbox (tlerp s e n i).
  Proof.
    intros ((S1 & S2) & Sy & (S3 & S4)) ((E1 & E2) & Ey & (E3 & E4)) Hn Hi.
    destruct s as [sx sy sz], e as [ex ey ez]. cbn [x3 y3 z3] in *. subst sy ey.
    unfold inbox, tlerp, pt3_add, pt3_mul, pt3_div, pt3_sub. cbn [x3 y3 z3 nadd nmul nsub ndiv nofZ NumR].
    assert (Hn' : 0 < IZR n) by (apply IZR_lt; exact Hn).
    assert (Ht : 0 <= IZR i / IZR n <= 1).
    { split; [apply Rmult_le_pos; [apply IZR_le; lia|left; apply Rinv_0_lt_compat; exact Hn']|].
      apply (Rmult_le_reg_r (IZR n)); [exact Hn'|]. unfold Rdiv. rewrite Rmult_assoc, Rinv_l by lra. rewrite Rmult_1_r, Rmult_1_l. apply IZR_le. lia. }
    set (t := IZR i / IZR n) in *.
    replace (sx + (ex - sx) / IZR n * IZR i) with (sx + (ex - sx) * t) by (unfold t; field; lra).
    replace (0 + (0 - 0) / IZR n * IZR i) with 0 by (field; lra).
    replace (sz + (ez - sz) / IZR n * IZR i) with (sz + (ez - sz) * t) by (unfold t; field; lra).
    repeat split; nra.
  Qed.

  (* a section point carried to its ring: same distance from the axis, lifted by a non-negative amount *)
  Lemma mk_vok (p : P3) (c s lift : R) : s * s + c * c = 1 -> 0 <= lift -> inbox p ->
    vok (Pt3 (c * x3 p) (s * x3 p) (lift + z3 p)).
  Proof.
    intros Hcs Hl ((H1 & H2) & Hy & (H3 & H4)). unfold vok. cbn [x3 y3 z3]. split; [|lra].
    replace (c * x3 p * (c * x3 p) + s * x3 p * (s * x3 p)) with (x3 p * x3 p * (s * s + c * c)) by ring. rewrite Hcs. nra.
  Qed.
End Mesh.

Lemma Rtrunc_ge (x : R) (k : Z) : 0 <= x -> IZR k <= x -> (k <= Rtrunc x)%Z.
Proof.
  intros H0 Hk. unfold Rtrunc. destruct (Rle_dec 0 x); [|contradiction].
  destruct (base_Int_part x) as [_ H2]. assert (IZR k < IZR (Int_part x + 1)) by (rewrite plus_IZR; lra). apply lt_IZR in H. lia.
Qed.
Lemma Rtrunc_bounds (x : R) : 0 <= x -> IZR (Rtrunc x) <= x < IZR (Rtrunc x) + 1.
Proof. intros H0. unfold Rtrunc. destruct (Rle_dec 0 x); [|contradiction]. destruct (base_Int_part x) as [H1 H2]. lra. Qed.

Lemma fold_left_inv {A B} (f : A -> B -> A) (P : A -> Prop) (l : list B) :
  (forall a x, In x l -> P a -> P (f a x)) -> forall a, P a -> P (fold_left f l a).
Proof.
  induction l as [|x l IH]; intros Hf a Ha; [exact Ha|]. cbn [fold_left]. apply IH.
  - intros a' x' Hx' Ha'. apply Hf; [right; exact Hx'|exact Ha'].
  - apply Hf; [left; reflexivity|exact Ha].
Qed.

Section MeshThm.
  Variables (d_min d_maj pitch length : R) (segments : Z) (li lo : R) (left : bool).
  Hypothesis Hd : 0 <= d_min <= d_maj.
  Hypothesis Hp : 0 <= pitch.
  Hypothesis Hseg : (0 <= segments)%Z.
  Hypothesis Hli : 0 <= li.
  Hypothesis Hlo : 0 <= lo.
  Definition thread_length : R := length - 7 / 10 * pitch.
  Definition n_steps : Z := Rtrunc (thread_length / pitch * IZR segments).
  Definition z_step : R := thread_length / IZR n_steps.
  Hypothesis Hz : 0 <= z_step.

  Notation vok := (vok d_min d_maj). Notation inbox := (inbox d_min d_maj pitch).
  Definition st_ok (n_out : Z) (st : @tstate R) : Prop :=
    inbox (ts_in1 st) /\ inbox (ts_in3 st) /\ inbox (ts_out1 st) /\ inbox (ts_out3 st) /\
    (3 <= ts_in_step st)%Z /\ (0 <= ts_out_step st <= n_out)%Z /\ Forall vok (ts_verts st).

  Theorem thread_vertices : Forall vok (fst (thread_mesh d_min d_maj pitch length segments li lo left)).
  Proof.
    unfold thread_mesh. cbv zeta. cbn [fst]. apply Forall_rev.
    cbn [nzero nltb nsub nmul ndiv nadd nofZ ntrunc ntwo nthree NumR]. unfold nlit. cbn [ndiv nofZ NumR].
    fold thread_length. fold n_steps. fold z_step.
    set (n_in := Rtrunc (IZR segments * li / 360 + 2)).
    set (n_out := Rtrunc (IZR segments * lo / 360)).
    set (tp0 := Pt3 (d_min / 2) 0 (3 / 4 * pitch)). set (tp1 := Pt3 (d_maj / 2) 0 (7 / 16 * pitch)).
    set (tp2 := Pt3 (d_min / 2) 0 0). set (tp3 := Pt3 (d_maj / 2) 0 (5 / 16 * pitch)).
    set (lerp1 := Pt3 (d_min / 2) 0 (7 / 16 * pitch)). set (lerp3 := Pt3 (d_min / 2) 0 (5 / 16 * pitch)).
    assert (B0 : inbox tp0) by (unfold inbox, tp0; cbn [x3 y3 z3]; lra).
    assert (B1 : inbox tp1) by (unfold inbox, tp1; cbn [x3 y3 z3]; lra).
    assert (B2 : inbox tp2) by (unfold inbox, tp2; cbn [x3 y3 z3]; lra).
    assert (B3 : inbox tp3) by (unfold inbox, tp3; cbn [x3 y3 z3]; lra).
    assert (L1 : inbox lerp1) by (unfold inbox, lerp1; cbn [x3 y3 z3]; lra).
    assert (L3 : inbox lerp3) by (unfold inbox, lerp3; cbn [x3 y3 z3]; lra).
    assert (Hnin : (2 <= n_in)%Z).
    { unfold n_in. assert (0 <= IZR segments) by (apply IZR_le; exact Hseg).
      assert (0 <= IZR segments * li / 360) by (apply Rmult_le_pos; [apply Rmult_le_pos; assumption|lra]).
      apply Rtrunc_ge; lra. }
    assert (I1 : inbox (tlerp lerp1 tp1 n_in 2)) by (apply tlerp_box; try assumption; lia).
    assert (I3 : inbox (tlerp lerp3 tp3 n_in 2)) by (apply tlerp_box; try assumption; lia).
    assert (O1 : (1 <= n_out)%Z -> inbox (tlerp lerp1 tp1 n_out 1)) by (intros; apply tlerp_box; try assumption; lia).
    assert (O3 : (1 <= n_out)%Z -> inbox (tlerp lerp3 tp3 n_out 1)) by (intros; apply tlerp_box; try assumption; lia).
    set (in_start1 := tlerp lerp1 tp1 n_in 2) in *. set (in_start3 := tlerp lerp3 tp3 n_in 2) in *.
    set (out_end1 := tlerp lerp1 tp1 n_out 1) in *. set (out_end3 := tlerp lerp3 tp3 n_out 1) in *.
    match goal with |- Forall vok (ts_verts (fold_left ?body ?l ?st0)) =>
      assert (HI : st_ok n_out (fold_left body l st0)); [apply (fold_left_inv body (st_ok n_out) l)|destruct HI as (_ & _ & _ & _ & _ & _ & HV); exact HV] end.
    - (* one step keeps the invariant *)
      intros st step Hstep (Hi1 & Hi3 & Ho1 & Ho3 & Hin & Hout & HV).
      apply in_map_iff in Hstep. destruct Hstep as [k [<- _]].
      assert (Hlift : 0 <= z_step * IZR (Z.of_nat k)) by (apply Rmult_le_pos; [exact Hz|apply IZR_le; lia]).
      set (ang := if left then 360 / IZR segments * IZR (Z.of_nat k + 1) * - (1) else 360 / IZR segments * IZR (Z.of_nat k + 1)).
      pose proof (dsin2_dcos2 ang) as Hcs.
      assert (MK : forall p, inbox p -> vok (Pt3 (dcos ang * x3 p) (dsin ang * x3 p) (z_step * IZR (Z.of_nat k) + z3 p))) by (intros p Hb; apply (mk_vok d_min d_maj pitch Hd); assumption).
      destruct ((ts_in_step st <? n_in)%Z && Rltb 0 li) eqn:Ein.
      + apply andb_prop in Ein. destruct Ein as [Ein _]. apply Z.ltb_lt in Ein.
        unfold st_ok. cbn [ts_in1 ts_in3 ts_out1 ts_out3 ts_in_step ts_out_step ts_verts].
        split; [apply tlerp_box; try assumption; lia|]. split; [apply tlerp_box; try assumption; lia|].
        split; [exact Ho1|]. split; [exact Ho3|]. split; [lia|]. split; [exact Hout|].
        cbn [rev app]. constructor; [apply MK; assumption|]. constructor; [apply MK; assumption|]. constructor; [apply MK; assumption|]. constructor; [apply MK; assumption|]. exact HV.
      + destruct ((0 <? ts_out_step st)%Z && (n_steps - n_out <=? Z.of_nat k)%Z && Rltb 0 lo) eqn:Eout.
        * apply andb_prop in Eout. destruct Eout as [Eout _]. apply andb_prop in Eout. destruct Eout as [Eout _]. apply Z.ltb_lt in Eout.
          unfold st_ok. cbn [ts_in1 ts_in3 ts_out1 ts_out3 ts_in_step ts_out_step ts_verts].
          split; [exact Hi1|]. split; [exact Hi3|].
          split; [apply tlerp_box; [exact B1|apply O1; lia|lia|lia]|]. split; [apply tlerp_box; [exact B3|apply O3; lia|lia|lia]|].
          split; [exact Hin|]. split; [lia|].
          cbn [rev app]. constructor; [apply MK; assumption|]. constructor; [apply MK; assumption|]. constructor; [apply MK; assumption|]. constructor; [apply MK; assumption|]. exact HV.
        * unfold st_ok. cbn [ts_in1 ts_in3 ts_out1 ts_out3 ts_in_step ts_out_step ts_verts].
          split; [exact Hi1|]. split; [exact Hi3|]. split; [exact Ho1|]. split; [exact Ho3|]. split; [exact Hin|]. split; [exact Hout|].
          cbn [rev app]. constructor; [apply MK; assumption|]. constructor; [apply MK; assumption|]. constructor; [apply MK; assumption|]. constructor; [apply MK; assumption|]. exact HV.
    - (* the first ring *)
      unfold st_ok. cbn [ts_in1 ts_in3 ts_out1 ts_out3 ts_in_step ts_out_step ts_verts].
      split; [exact I1|]. split; [exact I3|]. split; [exact B1|]. split; [exact B3|]. split; [lia|].
      split; [split; [|lia]|].
      + unfold n_out. apply Rtrunc_ge; [|cbn; apply Rmult_le_pos; [apply Rmult_le_pos; [apply IZR_le; exact Hseg|exact Hlo]|lra]].
        apply Rmult_le_pos; [apply Rmult_le_pos; [apply IZR_le; exact Hseg|exact Hlo]|lra].
      + cbn [rev app]. constructor; [apply (inbox_vok d_min d_maj pitch Hd); assumption|]. constructor; [apply (inbox_vok d_min d_maj pitch Hd); assumption|]. constructor; [apply (inbox_vok d_min d_maj pitch Hd); assumption|]. constructor; [apply (inbox_vok d_min d_maj pitch Hd); assumption|]. constructor.
  Qed.
End MeshThm.

(* ---- the natural conditions give the hypotheses of thread_vertices ---- *)
Lemma z_step_nonneg (pitch length : R) (segments : Z) : 0 <= pitch -> 7 / 10 * pitch <= length -> (0 <= segments)%Z ->
  0 <= z_step pitch length segments.
Proof.
  intros Hp Hl Hs. unfold z_step, thread_length. set (tl := length - 7 / 10 * pitch). assert (Htl : 0 <= tl) by (unfold tl; lra).
  set (n := n_steps pitch length segments). assert (Hn : (0 <= n)%Z).
  { unfold n, n_steps. apply Rtrunc_ge; [|cbn; fold thread_length]; unfold thread_length; fold tl.
    - apply Rmult_le_pos; [|apply IZR_le; exact Hs]. unfold Rdiv. apply Rmult_le_pos; [exact Htl|].
      destruct (Req_dec pitch 0) as [->|Hne]; [rewrite Rinv_0; lra|left; apply Rinv_0_lt_compat; lra].
    - apply Rmult_le_pos; [|apply IZR_le; exact Hs]. unfold Rdiv. apply Rmult_le_pos; [exact Htl|].
      destruct (Req_dec pitch 0) as [->|Hne]; [rewrite Rinv_0; lra|left; apply Rinv_0_lt_compat; lra]. }
  unfold Rdiv. apply Rmult_le_pos; [exact Htl|]. destruct (Z.eq_dec n 0) as [->|Hne]; [rewrite Rinv_0; lra|].
  left. apply Rinv_0_lt_compat. apply IZR_lt. lia.
Qed.

(* one pitch per revolution, within the rounding of the step count: segments steps advance by
   pitch * X / trunc(X), X = (thread length / pitch) * segments, which lies in [pitch, pitch * (1 + 1/n_steps)) *)
Theorem pitch_per_revolution (pitch length : R) (segments : Z) : 0 < pitch -> 7 / 10 * pitch <= length -> (0 <= segments)%Z ->
  (1 <= n_steps pitch length segments)%Z ->
  pitch <= z_step pitch length segments * IZR segments < pitch * (1 + / IZR (n_steps pitch length segments)).
Proof.
  intros Hp Hl Hs Hn. unfold z_step. set (n := n_steps pitch length segments) in *. set (tl := thread_length pitch length).
  assert (Htl : 0 <= tl) by (unfold tl, thread_length; lra).
  set (X := tl / pitch * IZR segments).
  assert (HX0 : 0 <= X) by (unfold X; apply Rmult_le_pos; [apply Rmult_le_pos; [exact Htl|left; apply Rinv_0_lt_compat; exact Hp]|apply IZR_le; exact Hs]).
  destruct (Rtrunc_bounds X HX0) as [B1 B2]. change (Rtrunc X) with n in B1, B2.
  assert (Hn' : 1 <= IZR n) by (apply IZR_le; exact Hn).
  assert (E : tl / IZR n * IZR segments = pitch * (X / IZR n)) by (unfold X; field; lra). rewrite E.
  assert (Hinv : 0 < / IZR n) by (apply Rinv_0_lt_compat; lra).
  assert (H1 : 1 <= X / IZR n) by (apply (Rmult_le_reg_r (IZR n)); [lra|]; unfold Rdiv; rewrite Rmult_assoc, Rinv_l by lra; lra).
  assert (H2 : X / IZR n < 1 + / IZR n) by (apply (Rmult_lt_reg_r (IZR n)); [lra|]; unfold Rdiv; rewrite Rmult_assoc, Rmult_plus_distr_r, !Rinv_l by lra; lra).
  split; nra.
Qed.

(* ---- the table sizes: minor diameter non-negative for every row (reflection over the regenerated table with
        sqrt 3 < 1.7321), so rods, bolts (external) and taps, nuts (internal) satisfy the hypotheses ---- *)
From SCAD Require Import Gen.ThreadTable Parts.Thread_proofsR.
Definition row_minor_ok (r : row) : bool :=
  let '(_, p, e, i, _, _) := r in
  (* 10826 * pitch <= 10000 * ext and <= 10000 * int, with positive denominators *)
  (10826 * fst p * snd e <=? 10000 * fst e * snd p)%Z && (10826 * fst p * snd i <=? 10000 * fst i * snd p)%Z &&
  (0 <? snd p)%Z && (0 <? snd e)%Z && (0 <? snd i)%Z && (0 <=? fst p)%Z.
Lemma rows_minor_ok : forallb row_minor_ok thread_rows = true.
Proof. vm_compute. reflexivity. Qed.
Lemma sqrt3_lt : sqrt 3 < 17321 / 10000.
Proof.
  assert (H : sqrt 3 < sqrt ((17321 / 10000) * (17321 / 10000))) by (apply sqrt_lt_1; lra).
  rewrite sqrt_square in H by lra. exact H.
Qed.
Lemma qv_val (q : Z * Z) : @qv R _ q = IZR (fst q) / IZR (snd q).
Proof. reflexivity. Qed.
Lemma row_minor_nonneg (r : row) : In r thread_rows ->
  0 <= d_min_from_d_maj_pitch (r_ext r) (r_pitch r) <= r_ext r /\ 0 <= d_min_from_d_maj_pitch (r_int r) (r_pitch r) <= r_int r /\ 0 <= r_pitch r.
Proof.
  intros Hin. pose proof rows_minor_ok as Hall. rewrite forallb_forall in Hall. specialize (Hall r Hin).
  destruct r as [[[[[k p] e] i] nw] ch]. unfold row_minor_ok in Hall. cbn [fst snd] in Hall.
  repeat (apply andb_prop in Hall; destruct Hall as [Hall ?]).
  repeat match goal with H : (_ <=? _)%Z = true |- _ => apply Z.leb_le in H | H : (_ <? _)%Z = true |- _ => apply Z.ltb_lt in H end.
  rewrite !d_min_formula. unfold r_ext, r_int, r_pitch. rewrite !qv_val. destruct p as [pn pd], e as [en ed], i as [inn id]. cbn [fst snd] in *.
  pose proof sqrt3_lt as Hs3. assert (0 <= sqrt 3) by apply sqrt_pos.
  assert (Hpd : 0 < IZR pd) by (apply IZR_lt; assumption). assert (Hed : 0 < IZR ed) by (apply IZR_lt; assumption). assert (Hid : 0 < IZR id) by (apply IZR_lt; assumption).
  assert (Hpn : 0 <= IZR pn) by (apply IZR_le; assumption).
  assert (Hp : 0 <= IZR pn / IZR pd) by (apply Rmult_le_pos; [exact Hpn|left; apply Rinv_0_lt_compat; exact Hpd]).
  assert (He : 10826 / 10000 * (IZR pn / IZR pd) <= IZR en / IZR ed).
  { apply (Rmult_le_reg_r (IZR pd * IZR ed * 10000)); [nra|]. replace (10826 / 10000 * (IZR pn / IZR pd) * (IZR pd * IZR ed * 10000)) with (10826 * IZR pn * IZR ed) by (field; lra).
    replace (IZR en / IZR ed * (IZR pd * IZR ed * 10000)) with (10000 * IZR en * IZR pd) by (field; lra). rewrite <- !mult_IZR. apply IZR_le. assumption. }
  assert (Hi : 10826 / 10000 * (IZR pn / IZR pd) <= IZR inn / IZR id).
  { apply (Rmult_le_reg_r (IZR pd * IZR id * 10000)); [nra|]. replace (10826 / 10000 * (IZR pn / IZR pd) * (IZR pd * IZR id * 10000)) with (10826 * IZR pn * IZR id) by (field; lra).
    replace (IZR inn / IZR id * (IZR pd * IZR id * 10000)) with (10000 * IZR inn * IZR pd) by (field; lra). rewrite <- !mult_IZR. apply IZR_le. assumption. }
  set (P := IZR pn / IZR pd) in *. repeat split; nra.
Qed.

(* ---- hand: the ring added at step s stands at angle +(s+1)*360/segments (right-hand) or -(s+1)*360/segments (left-hand)
        and is lifted by s * z_step: going up, a right-hand thread turns counter-clockwise, a left-hand one clockwise ---- *)
Definition ring_at (ang lift : R) (p : pt3 R) : pt3 R := Pt3 (dcos ang * x3 p) (dsin ang * x3 p) (lift + z3 p).
Definition hand_angle (left : bool) (segments : Z) (s : Z) : R :=
  if left then 360 / IZR segments * IZR (s + 1) * - (1) else 360 / IZR segments * IZR (s + 1).

Lemma fold_left_seq_inv {A} (body : A -> Z -> A) (P : nat -> A -> Prop) (m : nat) (a0 : A) :
  P 0%nat a0 -> (forall j a, (j < m)%nat -> P j a -> P (S j) (body a (Z.of_nat j))) ->
  P m (fold_left body (map Z.of_nat (seq 0 m)) a0).
Proof.
  induction m as [|m IH]; intros H0 Hs; [exact H0|]. rewrite seq_S, map_app, fold_left_app. cbn [map fold_left Nat.add].
  apply Hs; [lia|]. apply IH; [exact H0|]. intros j a Hj. apply Hs. lia.
Qed.

Section Hand.
  Variables (d_min d_maj pitch length : R) (segments : Z) (li lo : R) (left : bool).
  Hypothesis Hd : 0 <= d_min <= d_maj.
  Hypothesis Hp : 0 <= pitch.
  Hypothesis Hseg : (0 <= segments)%Z.
  Hypothesis Hli : 0 <= li.
  Hypothesis Hlo : 0 <= lo.
  Notation inbox := (inbox d_min d_maj pitch).
  Notation zs := (z_step pitch length segments).

  (* the vertex list (newest ring first): the first section, then one ring of four section points per step *)
  Inductive built : list (pt3 R) -> nat -> Prop :=
  | built0 p0 p1 p2 p3 : inbox p0 -> inbox p1 -> inbox p2 -> inbox p3 -> built [p3; p2; p1; p0] 0
  | builtS vs s p0 p1 p2 p3 : built vs s -> inbox p0 -> inbox p1 -> inbox p2 -> inbox p3 ->
      built (ring_at (hand_angle left segments (Z.of_nat s)) (zs * IZR (Z.of_nat s)) p3 ::
             ring_at (hand_angle left segments (Z.of_nat s)) (zs * IZR (Z.of_nat s)) p2 ::
             ring_at (hand_angle left segments (Z.of_nat s)) (zs * IZR (Z.of_nat s)) p1 ::
             ring_at (hand_angle left segments (Z.of_nat s)) (zs * IZR (Z.of_nat s)) p0 :: vs) (S s).

  Definition st_ok' (n_out : Z) (st : @tstate R) : Prop :=
    inbox (ts_in1 st) /\ inbox (ts_in3 st) /\ inbox (ts_out1 st) /\ inbox (ts_out3 st) /\
    (3 <= ts_in_step st)%Z /\ (0 <= ts_out_step st <= n_out)%Z.

  Theorem thread_rings : built (rev (fst (thread_mesh d_min d_maj pitch length segments li lo left))) (Z.to_nat (n_steps pitch length segments - 1)).
  Proof.
    unfold thread_mesh. cbv zeta. cbn [fst]. rewrite rev_involutive.
    cbn [nzero nltb nsub nmul ndiv nadd nofZ ntrunc ntwo nthree NumR]. unfold nlit. cbn [ndiv nofZ NumR].
    fold (thread_length pitch length). fold (n_steps pitch length segments). fold zs.
    set (n_in := Rtrunc (IZR segments * li / 360 + 2)).
    set (n_out := Rtrunc (IZR segments * lo / 360)).
    set (tp0 := Pt3 (d_min / 2) 0 (3 / 4 * pitch)). set (tp1 := Pt3 (d_maj / 2) 0 (7 / 16 * pitch)).
    set (tp2 := Pt3 (d_min / 2) 0 0). set (tp3 := Pt3 (d_maj / 2) 0 (5 / 16 * pitch)).
    set (lerp1 := Pt3 (d_min / 2) 0 (7 / 16 * pitch)). set (lerp3 := Pt3 (d_min / 2) 0 (5 / 16 * pitch)).
    assert (B0 : inbox tp0) by (unfold Thread_mesh_proofs.inbox, tp0; cbn [x3 y3 z3]; lra).
    assert (B1 : inbox tp1) by (unfold Thread_mesh_proofs.inbox, tp1; cbn [x3 y3 z3]; lra).
    assert (B2 : inbox tp2) by (unfold Thread_mesh_proofs.inbox, tp2; cbn [x3 y3 z3]; lra).
    assert (B3 : inbox tp3) by (unfold Thread_mesh_proofs.inbox, tp3; cbn [x3 y3 z3]; lra).
    assert (L1 : inbox lerp1) by (unfold Thread_mesh_proofs.inbox, lerp1; cbn [x3 y3 z3]; lra).
    assert (L3 : inbox lerp3) by (unfold Thread_mesh_proofs.inbox, lerp3; cbn [x3 y3 z3]; lra).
    assert (Hnin : (2 <= n_in)%Z).
    { unfold n_in. assert (0 <= IZR segments) by (apply IZR_le; exact Hseg).
      assert (0 <= IZR segments * li / 360) by (apply Rmult_le_pos; [apply Rmult_le_pos; assumption|lra]).
      apply Rtrunc_ge; lra. }
    assert (Hnout : (0 <= n_out)%Z).
    { unfold n_out. apply Rtrunc_ge; [|cbn; apply Rmult_le_pos; [apply Rmult_le_pos; [apply IZR_le; exact Hseg|exact Hlo]|lra]].
      apply Rmult_le_pos; [apply Rmult_le_pos; [apply IZR_le; exact Hseg|exact Hlo]|lra]. }
    assert (I1 : inbox (tlerp lerp1 tp1 n_in 2)) by (apply tlerp_box; try assumption; lia).
    assert (I3 : inbox (tlerp lerp3 tp3 n_in 2)) by (apply tlerp_box; try assumption; lia).
    assert (O1 : (1 <= n_out)%Z -> inbox (tlerp lerp1 tp1 n_out 1)) by (intros; apply tlerp_box; try assumption; lia).
    assert (O3 : (1 <= n_out)%Z -> inbox (tlerp lerp3 tp3 n_out 1)) by (intros; apply tlerp_box; try assumption; lia).
    set (in_start1 := tlerp lerp1 tp1 n_in 2) in *. set (in_start3 := tlerp lerp3 tp3 n_in 2) in *.
    set (out_end1 := tlerp lerp1 tp1 n_out 1) in *. set (out_end3 := tlerp lerp3 tp3 n_out 1) in *.
    match goal with |- built (ts_verts (fold_left ?body (map Z.of_nat (seq 0 ?m)) ?st0)) _ =>
      assert (HI : (fun j st => st_ok' n_out st /\ built (ts_verts st) j) m (fold_left body (map Z.of_nat (seq 0 m)) st0));
        [apply (fold_left_seq_inv body (fun j st => st_ok' n_out st /\ built (ts_verts st) j) m st0)|exact (proj2 HI)] end.
    - (* the first section *)
      split.
      + unfold st_ok'. cbn [ts_in1 ts_in3 ts_out1 ts_out3 ts_in_step ts_out_step].
        split; [exact I1|]. split; [exact I3|]. split; [exact B1|]. split; [exact B3|]. split; lia.
      + cbn [ts_verts rev app]. apply built0; assumption.
    - (* one step: the four new vertices are section points carried to the ring of step j *)
      intros j st Hj ((Hi1 & Hi3 & Ho1 & Ho3 & Hin & Hout) & Hb).
      assert (Hang : (if left then 360 / IZR segments * IZR (Z.of_nat j + 1) * - (1) else 360 / IZR segments * IZR (Z.of_nat j + 1)) = hand_angle left segments (Z.of_nat j)) by reflexivity.
      destruct ((ts_in_step st <? n_in)%Z && Rltb 0 li) eqn:Ein.
      + apply andb_prop in Ein. destruct Ein as [Ein _]. apply Z.ltb_lt in Ein. split.
        * unfold st_ok'. cbn [ts_in1 ts_in3 ts_out1 ts_out3 ts_in_step ts_out_step].
          split; [apply tlerp_box; try assumption; lia|]. split; [apply tlerp_box; try assumption; lia|].
          split; [exact Ho1|]. split; [exact Ho3|]. split; [lia|exact Hout].
        * cbn [ts_verts rev app]. apply (builtS (ts_verts st) j tp0 (ts_in1 st) tp2 (ts_in3 st)); assumption.
      + destruct ((0 <? ts_out_step st)%Z && (n_steps pitch length segments - n_out <=? Z.of_nat j)%Z && Rltb 0 lo) eqn:Eout.
        * apply andb_prop in Eout. destruct Eout as [Eout _]. apply andb_prop in Eout. destruct Eout as [Eout _]. apply Z.ltb_lt in Eout. split.
          -- unfold st_ok'. cbn [ts_in1 ts_in3 ts_out1 ts_out3 ts_in_step ts_out_step].
             split; [exact Hi1|]. split; [exact Hi3|].
             split; [apply tlerp_box; [exact B1|apply O1; lia|lia|lia]|]. split; [apply tlerp_box; [exact B3|apply O3; lia|lia|lia]|].
             split; [exact Hin|lia].
          -- cbn [ts_verts rev app]. apply (builtS (ts_verts st) j tp0 (ts_out1 st) tp2 (ts_out3 st)); assumption.
        * split.
          -- unfold st_ok'. cbn [ts_in1 ts_in3 ts_out1 ts_out3 ts_in_step ts_out_step]. split; [exact Hi1|]. split; [exact Hi3|]. split; [exact Ho1|]. split; [exact Ho3|]. split; [exact Hin|exact Hout].
          -- cbn [ts_verts rev app]. apply (builtS (ts_verts st) j tp0 tp1 tp2 tp3); assumption.
  Qed.
End Hand.
