(* Parts/Viewer_proofs.v -- C18: the scene after any history is, in order, exactly what each call adds. Axiom-free
   (generic in the number type). *)
From Coq Require Import ZArith NArith List Bool.
From SCAD Require Import Base.Num Base.Vec Geom.Dim2 Geom.Dim3 Text.Chars Text.Tree Parts.Thread Parts.Viewer.
Import ListNotations.

Section V.
  Context {T : Type} `{Num T}.
  Notation tree := (scad T text).

  (* the scene is a left-deep union; a single-child union is what the first group call creates *)
  Fixpoint parts (t : tree) : list tree :=
    match t with
    | Node Union [a; b] => parts a ++ [b]
    | Node Union [c] => [c]
    | _ => [t]
    end.
  Definition parts_of (st : option tree) : list tree := match st with Some t => parts t | None => [] end.
  Definition is_item (s : tree) : Prop := match s with Node Union _ => False | _ => True end.

  Lemma parts_item s : is_item s -> parts s = [s].
  Proof. destruct s as [o cs]. destruct o; try reflexivity. intros Hc; contradiction. Qed.
  Lemma parts_add_tree st s : is_item s -> parts_of (add_tree st s) = parts_of st ++ [s].
  Proof. intros Hs. destruct st as [t|]; cbn [add_tree parts_of parts app]; [reflexivity|]. apply parts_item. assumption. Qed.
  Lemma parts_add_group st color children :
    parts_of (add_group st color children) = parts_of st ++ [Node (Color None (Some color) None (Some none_)) children].
  Proof. destruct st as [t|]; reflexivity. Qed.

  (* what each basic call adds *)
  Definition point_item (cfg : vcfg) (p : pt3 T) (color : N) : tree :=
    Node (Translate (P3 (x3 p) (y3 p) (z3 p)))
      [Node (Color None (Some color) None None) [Node (Sphere (point_radius cfg) None None (Some (Z.to_N (vsegments cfg)))) []]].
  Definition group_item (color : N) (children : list tree) : tree := Node (Color None (Some color) None (Some none_)) children.

  Lemma add_pt3_parts cfg st p color : parts_of (add_pt3 cfg st p color) = parts_of st ++ [point_item cfg p color].
  Proof. unfold add_pt3. apply parts_add_tree. exact I. Qed.
  Lemma add_pt3s_parts cfg st l color : parts_of (add_pt3s cfg st l color) = parts_of st ++ [group_item color (map (sphere_at cfg) l)].
  Proof. apply parts_add_group. Qed.
  Lemma add_lines3_parts cfg st l color st' : add_lines3 cfg st l color = Some st' ->
    exists cs, all_some (map (fun se => edge_cylinder cfg (fst se) (snd se)) l) = Some cs /\ parts_of st' = parts_of st ++ [group_item color cs].
  Proof.
    unfold add_lines3. destruct (all_some _) as [cs|]; [|discriminate]. intros E. inversion E. exists cs. split; [reflexivity|apply parts_add_group].
  Qed.
  Lemma add_lines2_parts cfg st l color st' : add_lines2 cfg st l color = Some st' ->
    exists cs, all_some (map (fun se => edge_cylinder2 cfg (fst se) (snd se)) l) = Some cs /\ parts_of st' = parts_of st ++ [group_item color cs].
  Proof.
    unfold add_lines2. destruct (all_some _) as [cs|]; [|discriminate]. intros E. inversion E. exists cs. split; [reflexivity|apply parts_add_group].
  Qed.

  (* monotone history: a step never removes or reorders earlier parts *)
  Definition extends (a b : option tree) : Prop := exists added, parts_of b = parts_of a ++ added.
  Lemma extends_refl a : extends a a. Proof. exists []. rewrite app_nil_r. reflexivity. Qed.
  Lemma extends_trans a b c : extends a b -> extends b c -> extends a c.
  Proof. intros [x Hx] [y Hy]. exists (x ++ y). rewrite Hy, Hx, app_assoc. reflexivity. Qed.

  Lemma fold_pts_extends {C} cfg color (f : C -> pt3 T) (l : list C) : forall st, extends st (fold_left (fun s c => add_pt3 cfg s (f c) color) l st).
  Proof.
    induction l as [|c l IH]; intros st; [apply extends_refl|]. cbn [fold_left].
    eapply extends_trans; [|apply IH]. exists [point_item cfg (f c) color]. apply add_pt3_parts.
  Qed.
  Lemma add_curve2_extends cfg st pts hs cs st' : add_curve2 cfg st pts hs cs = Some st' -> extends st st'.
  Proof.
    unfold add_curve2, bind. destruct (add_lines2 cfg _ (consecutive pts) white) as [st2|] eqn:E2; [|discriminate].
    destruct (add_lines2 cfg st2 hs green) as [st3|] eqn:E3; [|discriminate]. intros E. inversion E; subst; clear E.
    destruct (add_lines2_parts _ _ _ _ _ E2) as [c2 [_ H2]]. destruct (add_lines2_parts _ _ _ _ _ E3) as [c3 [_ H3]].
    eapply extends_trans; [exists [group_item dsg (map (sphere_at cfg) (map z0 pts))]; apply add_pt3s_parts|].
    eapply extends_trans; [eexists; exact H2|]. eapply extends_trans; [eexists; exact H3|]. apply (fold_pts_extends cfg green z0).
  Qed.
  Lemma add_curve3_extends cfg st pts hs cs st' : add_curve3 cfg st pts hs cs = Some st' -> extends st st'.
  Proof.
    unfold add_curve3, bind. destruct (add_lines3 cfg _ (consecutive pts) white) as [st2|] eqn:E2; [|discriminate].
    destruct (add_lines3 cfg st2 hs green) as [st3|] eqn:E3; [|discriminate]. intros E. inversion E; subst; clear E.
    destruct (add_lines3_parts _ _ _ _ _ E2) as [c2 [_ H2]]. destruct (add_lines3_parts _ _ _ _ _ E3) as [c3 [_ H3]].
    eapply extends_trans; [exists [group_item dsg (map (sphere_at cfg) pts)]; apply add_pt3s_parts|].
    eapply extends_trans; [eexists; exact H2|]. eapply extends_trans; [eexists; exact H3|]. apply (fold_pts_extends cfg green (fun p => p)).
  Qed.
  Lemma chain_fold_extends {C} (step : option tree -> C -> option (option tree)) (curves : list C) :
    (forall st c st', step st c = Some st' -> extends st st') ->
    forall st st', fold_left (fun acc c => bind acc (fun s => step s c)) curves (Some st) = Some st' -> extends st st'.
  Proof.
    intros Hstep. induction curves as [|c l IH]; intros st st' E; cbn [fold_left] in E.
    - inversion E. apply extends_refl.
    - unfold bind at 2 in E. destruct (step st c) as [s1|] eqn:E1.
      + eapply extends_trans; [eapply Hstep; exact E1|]. apply IH. exact E.
      + exfalso. clear -E. induction l as [|x l IHl]; cbn in E; [discriminate|]. apply IHl. exact E.
  Qed.

  Theorem viewer_step_extends cfg st o st' : viewer_step cfg st o = Some st' -> extends st st'.
  Proof.
    destruct o; cbn [viewer_step]; intros E.
    - inversion E. eexists. apply add_pt3_parts.
    - inversion E. eexists. apply add_pt3_parts.
    - inversion E. eexists. apply add_pt3s_parts.
    - inversion E. eexists. apply add_pt3s_parts.
    - destruct (add_lines2_parts _ _ _ _ _ E) as [cs [_ Hp]]. eexists. exact Hp.
    - destruct (add_lines3_parts _ _ _ _ _ E) as [cs [_ Hp]]. eexists. exact Hp.
    - eapply add_curve2_extends; exact E.
    - eapply add_curve3_extends; exact E.
    - eapply add_curve2_extends; exact E.
    - eapply add_curve3_extends; exact E.
    - eapply (chain_fold_extends (fun s c => add_curve2 cfg s _ _ _)); [|exact E]. intros s c s' Es. eapply add_curve2_extends; exact Es.
    - eapply (chain_fold_extends (fun s c => add_curve3 cfg s _ _ _)); [|exact E]. intros s c s' Es. eapply add_curve3_extends; exact Es.
  Qed.

  (* every history: the scene only grows, in call order *)
  Theorem viewer_history_monotone cfg (ops1 ops2 : list vop) st1 st2 :
    viewer_run cfg ops1 = Some st1 -> viewer_run cfg (ops1 ++ ops2) = Some st2 -> extends st1 st2.
  Proof.
    unfold viewer_run. rewrite fold_left_app. intros E1. rewrite E1. clear E1. revert st1.
    induction ops2 as [|o l IH]; intros st1 E; cbn [fold_left] in E.
    - inversion E. apply extends_refl.
    - unfold bind at 2 in E. destruct (viewer_step cfg st1 o) as [s|] eqn:Es.
      + eapply extends_trans; [eapply viewer_step_extends; exact Es|]. apply IH. exact E.
      + exfalso. clear -E. induction l as [|x l IHl]; cbn in E; [discriminate|]. apply IHl. exact E.
  Qed.

  (* the four basic calls add exactly one part each, as described by the call *)
  Theorem viewer_basic_calls cfg st :
    (forall p c, parts_of (add_pt3 cfg st p c) = parts_of st ++ [point_item cfg p c]) /\
    (forall l c, parts_of (add_pt3s cfg st l c) = parts_of st ++ [group_item c (map (sphere_at cfg) l)]) /\
    (forall l c st', add_lines3 cfg st l c = Some st' ->
       exists cs, all_some (map (fun se => edge_cylinder cfg (fst se) (snd se)) l) = Some cs /\ parts_of st' = parts_of st ++ [group_item c cs]) /\
    (forall l c st', add_lines2 cfg st l c = Some st' ->
       exists cs, all_some (map (fun se => edge_cylinder2 cfg (fst se) (snd se)) l) = Some cs /\ parts_of st' = parts_of st ++ [group_item c cs]).
  Proof.
    split; [intros; apply add_pt3_parts|]. split; [intros; apply add_pt3s_parts|].
    split; [intros; eapply add_lines3_parts; eassumption|intros; eapply add_lines2_parts; eassumption].
  Qed.
End V.
