(* Parts/Viewer.v -- mirror of scad_tree/src/viewer.rs: the accumulating scene as a state machine. *)
From Coq Require Import ZArith NArith List Bool String.
From SCAD Require Import Base.Num Base.Vec Base.Mat Geom.Dim2 Geom.Dim3 Text.Chars Text.Tree Gen.Enums Parts.Thread.
Import ListNotations.
Local Open Scope num_scope.

Fixpoint index_of (s : string) (l : list string) (i : N) : N :=
  match l with [] => i | x :: tl => if String.eqb x s then i else index_of s tl (i + 1)%N end.
Definition color_index (name : string) : N := index_of name color_names 0%N.

Section Viewer.
  Context {T : Type} `{Num T}.
  Notation pt2 := (pt2 T). Notation pt3 := (pt3 T). Notation tree := (scad T text).

  Record vcfg := VCfg { point_radius : T; edge_radius : T; vsegments : Z }.

  Inductive vop :=
  | VPt2 (p : pt2) (c : N) | VPt3 (p : pt3) (c : N)
  | VPt2s (l : list pt2) (c : N) | VPt3s (l : list pt3) (c : N)
  | VLines2 (l : list (pt2 * pt2)) (c : N) | VLines3 (l : list (pt3 * pt3)) (c : N)
  | VQuad2 (s c e : pt2) (seg : Z) | VQuad3 (s c e : pt3) (seg : Z)
  | VCubic2 (s c1 c2 e : pt2) (seg : Z) | VCubic3 (s c1 c2 e : pt3) (seg : Z)
  | VChain2 (curves : list (@curve2 T)) | VChain3 (curves : list (@curve3 T)).

  Definition sphere_at (cfg : vcfg) (p : pt3) : tree :=
    Node (Translate (P3 (x3 p) (y3 p) (z3 p))) [Node (Sphere (point_radius cfg) None None (Some (Z.to_N (vsegments cfg)))) []].
  Definition add_tree (st : option tree) (s : tree) : option tree :=
    match st with Some t => Some (Node Union [t; s]) | None => Some s end.
  Definition add_group (st : option tree) (color : N) (children : list tree) : option tree :=
    let child := Node (Color None (Some color) None (Some none_)) children in
    match st with Some t => Some (Node Union [t; child]) | None => Some (Node Union [child]) end.

  Definition add_pt3 (cfg : vcfg) (st : option tree) (p : pt3) (color : N) : option tree :=
    add_tree st (Node (Translate (P3 (x3 p) (y3 p) (z3 p)))
                   [Node (Color None (Some color) None None)
                      [Node (Sphere (point_radius cfg) None None (Some (Z.to_N (vsegments cfg)))) []]]).
  Definition add_pt3s (cfg : vcfg) (st : option tree) (l : list pt3) (color : N) : option tree :=
    add_group st color (map (sphere_at cfg) l).

  (* None = Polyhedron::cylinder panics (fewer than 4 segments) *)
  Definition edge_cylinder (cfg : vcfg) (s e : pt3) : option tree :=
    let m := mt4_look_at_lh s e up_z in
    match cylinder (edge_radius cfg) (pt3_len (pt3_sub e s)) (vsegments cfg) with
    | Some c => Some (poly_leaf (poly_translate (poly_apply_matrix c m) s) 1%N)
    | None => None
    end.
  Fixpoint all_some {A} (l : list (option A)) : option (list A) :=
    match l with
    | [] => Some []
    | Some x :: tl => match all_some tl with Some r => Some (x :: r) | None => None end
    | None :: _ => None
    end.
  Definition add_lines3 (cfg : vcfg) (st : option tree) (l : list (pt3 * pt3)) (color : N) : option (option tree) :=
    match all_some (map (fun se => edge_cylinder cfg (fst se) (snd se)) l) with
    | Some cs => Some (add_group st color cs)
    | None => None
    end.
  (* 2D edges: the cylinder length is computed from the 2D points *)
  Definition edge_cylinder2 (cfg : vcfg) (s e : pt2) : option tree :=
    let s3 := pt2_as_pt3 s nzero in let e3 := pt2_as_pt3 e nzero in
    let m := mt4_look_at_lh s3 e3 up_z in
    match cylinder (edge_radius cfg) (pt2_len (pt2_sub e s)) (vsegments cfg) with
    | Some c => Some (poly_leaf (poly_translate (poly_apply_matrix c m) s3) 1%N)
    | None => None
    end.
  Definition add_lines2 (cfg : vcfg) (st : option tree) (l : list (pt2 * pt2)) (color : N) : option (option tree) :=
    match all_some (map (fun se => edge_cylinder2 cfg (fst se) (snd se)) l) with
    | Some cs => Some (add_group st color cs)
    | None => None
    end.

  Fixpoint consecutive {A} (l : list A) : list (A * A) :=
    match l with a :: ((b :: _) as tl) => (a, b) :: consecutive tl | _ => [] end.
  Definition z0 (p : pt2) : pt3 := pt2_as_pt3 p nzero.
  Definition dsg := color_index "DarkSlateGray". Definition white := color_index "White". Definition green := color_index "Green".
  Definition bind {A B} (o : option A) (f : A -> option B) : option B := match o with Some x => f x | None => None end.

  Definition add_curve2 (cfg : vcfg) (st : option tree) (points : list pt2) (handles : list (pt2 * pt2)) (controls : list pt2) : option (option tree) :=
    let st1 := add_pt3s cfg st (map z0 points) dsg in
    bind (add_lines2 cfg st1 (consecutive points) white) (fun st2 =>
    bind (add_lines2 cfg st2 handles green) (fun st3 =>
    Some (fold_left (fun s c => add_pt3 cfg s (z0 c) green) controls st3))).
  Definition add_curve3 (cfg : vcfg) (st : option tree) (points : list pt3) (handles : list (pt3 * pt3)) (controls : list pt3) : option (option tree) :=
    let st1 := add_pt3s cfg st points dsg in
    bind (add_lines3 cfg st1 (consecutive points) white) (fun st2 =>
    bind (add_lines3 cfg st2 handles green) (fun st3 =>
    Some (fold_left (fun s c => add_pt3 cfg s c green) controls st3))).

  Definition viewer_step (cfg : vcfg) (st : option tree) (o : vop) : option (option tree) :=
    match o with
    | VPt2 p c => Some (add_pt3 cfg st (z0 p) c)
    | VPt3 p c => Some (add_pt3 cfg st p c)
    | VPt2s l c => Some (add_pt3s cfg st (map z0 l) c)
    | VPt3s l c => Some (add_pt3s cfg st l c)
    | VLines2 l c => add_lines2 cfg st l c
    | VLines3 l c => add_lines3 cfg st l c
    | VQuad2 s c e seg => add_curve2 cfg st (quadratic_bezier s c e seg) [(s, c); (e, c)] [c]
    | VQuad3 s c e seg => add_curve3 cfg st (quadratic_bezier3 s c e seg) [(s, c); (e, c)] [c]
    | VCubic2 s c1 c2 e seg => add_curve2 cfg st (cubic_bezier s c1 c2 e seg) [(s, c1); (e, c2)] [c1; c2]
    | VCubic3 s c1 c2 e seg => add_curve3 cfg st (cubic_bezier3 s c1 c2 e seg) [(s, c1); (e, c2)] [c1; c2]
    | VChain2 curves =>
        fold_left (fun acc c => bind acc (fun s =>
          add_curve2 cfg s (cubic_bezier (c_start c) (c_control1 c) (c_control2 c) (c_end c) (c_segments c))
                     [(c_start c, c_control1 c); (c_end c, c_control2 c)] [c_control1 c; c_control2 c])) curves (Some st)
    | VChain3 curves =>
        fold_left (fun acc c => bind acc (fun s =>
          add_curve3 cfg s (cubic_bezier3 (d_start c) (d_control1 c) (d_control2 c) (d_end c) (d_segments c))
                     [(d_start c, d_control1 c); (d_end c, d_control2 c)] [d_control1 c; d_control2 c])) curves (Some st)
    end.

  Definition viewer_run (cfg : vcfg) (ops : list vop) : option (option tree) :=
    fold_left (fun acc o => bind acc (fun s => viewer_step cfg s o)) ops (Some None).
  (* into_scad: unwrap; the empty history panics *)
  Definition viewer_into_scad (cfg : vcfg) (ops : list vop) : option tree := bind (viewer_run cfg ops) (fun s => s).
End Viewer.
