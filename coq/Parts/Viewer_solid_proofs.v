(* Parts/Viewer_solid_proofs.v -- every edge cylinder of the Viewer is a closed, outward-facing solid, whatever direction the
   edge points in (C04, C18): the cylinder is closed and outward (Tri_convex), the look-at frame with up = +Z is a proper
   rotation in every branch (Sweep_caps.look_at_upz), and rigid motions keep the enclosed signed volume (Rigid_volume). *)
From Coq Require Import Reals ZArith NArith List Bool Lra Lia.
From SCAD Require Import Base.Num Base.NumR Base.Trig_proofs Base.Vec Base.Vec_proofs Base.Mat Base.Mat_proofs Base.Rot_proofs
  Geom.Poly Geom.Dim2 Geom.Dim2_proofs Geom.Tri Geom.Dim3 Geom.Dim3_proofs Geom.Mesh_proofs Geom.Mesh_exact Geom.Volume_proofs
  Geom.Tri_convex Geom.Sweep_caps Geom.Rigid_volume Text.Chars Text.Tree Parts.Thread Parts.Viewer Parts.Viewer_geom_proofs.
Import ListNotations.
Local Open Scope R_scope.

Lemma faces_ok_in_range (n : Z) (vs : list V3) (F : list (list Z)) : Z.of_nat (length vs) = n -> Forall (face_ok n) F ->
  Forall (Forall (fun i => (0 <= i < Z.of_nat (length vs))%Z)) F.
Proof. intros Hn HF. rewrite Hn. eapply Forall_impl; [|exact HF]. intros f (_ & _ & H). exact H. Qed.

Theorem edge_cylinder_closed_outward (r : R) (segments : Z) (s e : V3) ph : s <> e -> r <> 0 ->
  cylinder r (pt3_len (pt3_sub e s)) segments = Some ph ->
  let moved := poly_translate (poly_apply_matrix ph (mt4_look_at_lh s e up_z)) s in
  closed_exact (snd moved) /\ vol6 (fst moved) (snd moved) < 0.
Proof.
  intros Hne Hr Hc moved.
  destruct (cylinder_unconditional r _ segments ph Hc Hr) as [Hcl Hvol].
  assert (Hlen : 0 < pt3_len (pt3_sub e s)) by (apply pt3_len_pos, pt3_sub_nonzero, Hne).
  split; [exact Hcl|].
  unfold moved, poly_translate, poly_apply_matrix. cbn [fst snd].
  assert (Ea : pt3s_apply_matrix (fst ph) (mt4_look_at_lh s e up_z) = map (acts (mt4_look_at_lh s e up_z)) (fst ph)).
  { unfold pt3s_apply_matrix. apply map_ext. intros p. apply look_at_no_translation. }
  rewrite Ea. rewrite vol6_translate.
  - rewrite vol6_proper_rotation by (apply look_at_upz, Hne). apply Hvol, Hlen.
  - rewrite map_length. unfold cylinder in Hc. destruct (circle r segments) as [c|]; [|discriminate].
    destruct (linear_extrude_faces_ok c _ ph Hc) as [H1 H2]. exact (faces_ok_in_range _ (fst ph) (snd ph) H1 H2).
  - intros u v. apply Hcl.
Qed.

(* the same for the 2D edge calls (end points lifted to z = 0, length measured in the plane) *)
Theorem edge_cylinder2_closed_outward (r : R) (segments : Z) (s e : V2) ph : s <> e -> r <> 0 ->
  cylinder r (pt2_len (pt2_sub e s)) segments = Some ph ->
  let moved := poly_translate (poly_apply_matrix ph (mt4_look_at_lh (pt2_as_pt3 s 0) (pt2_as_pt3 e 0) up_z)) (pt2_as_pt3 s 0) in
  closed_exact (snd moved) /\ vol6 (fst moved) (snd moved) < 0.
Proof.
  intros Hne Hr Hc moved.
  destruct (cylinder_unconditional r _ segments ph Hc Hr) as [Hcl Hvol].
  assert (Hnz : pt2_nonzero (pt2_sub e s)).
  { destruct s as [sx sy], e as [ex ey]. unfold pt2_nonzero, pt2_sub. cbn [x2 y2 nsub NumR].
    destruct (Req_dec (ex - sx) 0) as [E1|E1]; [|left; exact E1]. destruct (Req_dec (ey - sy) 0) as [E2|E2]; [|right; exact E2].
    exfalso. apply Hne. f_equal; lra. }
  assert (Hlen : 0 < pt2_len (pt2_sub e s)) by (apply pt2_len_pos, Hnz).
  assert (Hne3 : pt2_as_pt3 s 0 <> pt2_as_pt3 e 0).
  { intros E. apply Hne. destruct s as [sx sy], e as [ex ey]. unfold pt2_as_pt3 in E. cbn [x2 y2] in E. injection E as E1 E2. f_equal; assumption. }
  split; [exact Hcl|].
  unfold moved, poly_translate, poly_apply_matrix. cbn [fst snd].
  set (m := mt4_look_at_lh (pt2_as_pt3 s 0) (pt2_as_pt3 e 0) up_z).
  assert (Ea : pt3s_apply_matrix (fst ph) m = map (acts m) (fst ph)).
  { unfold pt3s_apply_matrix. apply map_ext. intros p. apply look_at_no_translation. }
  rewrite Ea. rewrite vol6_translate.
  - rewrite vol6_proper_rotation by (apply look_at_upz, Hne3). apply Hvol, Hlen.
  - rewrite map_length. unfold cylinder in Hc. destruct (circle r segments) as [c|]; [|discriminate].
    destruct (linear_extrude_faces_ok c _ ph Hc) as [H1 H2]. exact (faces_ok_in_range _ (fst ph) (snd ph) H1 H2).
  - intros u v. apply Hcl.
Qed.
