(* Parts/Viewer_geom_proofs.v -- an edge cylinder of the Viewer runs from the start to the end of its edge (C18). Over R. *)
From Coq Require Import Reals ZArith NArith List Bool Lra Lia.
From SCAD Require Import Base.Num Base.NumR Base.Trig_proofs Base.Vec Base.Vec_proofs Base.Mat Base.Mat_proofs Base.Rot_proofs
  Geom.Poly Geom.Dim2 Geom.Dim2_proofs Geom.Tri Geom.Dim3 Geom.Dim3_proofs Text.Chars Text.Tree Parts.Thread Parts.Viewer.
Import ListNotations.
Local Open Scope R_scope.
Notation V3 := (pt3 R). Notation V2 := (pt2 R).

(* the frame's forward axis is the unit direction from s to e, in every branch of look_at_matrix_lh with up = +Z *)
Lemma look_at_forward (s e : V3) : s <> e -> acts (mt4_look_at_lh s e up_z) (Pt3 0 0 1) = direction s e.
Proof.
  intros Hne. change up_z with (Pt3 0 0 1 : V3).
  destruct (pt3_is_zero (pt3_cross (Pt3 0 0 1) (direction s e))) eqn:Ez.
  - (* the direction is vertical *)
    apply pt3_is_zero_true in Ez.
    assert (Hf : pt3_dot (direction s e) (direction s e) = 1) by (apply pt3_normalized_dot1, pt3_sub_nonzero; exact Hne).
    assert (Hv : direction s e = Pt3 0 0 1 \/ direction s e = Pt3 0 0 (-1)).
    { destruct (direction s e) as [fx fy fz]. revert Ez Hf. rred. intros Ez Hf. injection Ez as E1 E2 _.
      assert (fy = 0) by lra. assert (fx = 0) by lra. subst fx fy.
      assert (Hz : fz * fz = 1) by lra. assert (Hz' : (fz - 1) * (fz + 1) = 0) by lra.
      apply Rmult_integral in Hz'. destruct Hz' as [Hz'|Hz']; [left|right]; f_equal; lra. }
    destruct (look_at_vertical s e Hne Hv) as (_ & Hz & _). exact Hz.
  - assert (Hnz : pt3_cross (Pt3 0 0 1) (direction s e) <> Pt3 0 0 0).
    { intros E. rewrite E in Ez. unfold pt3_is_zero in Ez. cbn [x3 y3 z3 neqb nzero NumR] in Ez.
      assert (Reqb 0 0 = true) as E0 by (apply Reqb_true; reflexivity). rewrite E0 in Ez. discriminate. }
    destruct (look_at_rotation s e (Pt3 0 0 1) Hne Hnz) as (_ & Hz & _). exact Hz.
Qed.
Lemma len_times_direction (s e : V3) : s <> e -> pt3_mul (direction s e) (pt3_len (pt3_sub e s)) = pt3_sub e s.
Proof.
  intros Hne. pose proof (pt3_sub_nonzero s e Hne) as Hnz. destruct (pt3_normalized_dir _ Hnz) as [Hdir _]. unfold direction. rewrite Hdir.
  pose proof (pt3_len_pos _ Hnz) as Hl. set (v := pt3_sub e s) in *. set (l := pt3_len v) in *. clearbody l. destruct v as [dx dy dz].
  unfold pt3_mul. cbn [x3 y3 z3 nmul NumR]. f_equal; field; lra.
Qed.
Lemma acts_add_z (m : M4) (x y h : R) : acts m (Pt3 x y h) = pt3_add (acts m (Pt3 x y 0)) (pt3_mul (acts m (Pt3 0 0 1)) h).
Proof. destruct m as [[a1 a2 a3 a4] [b1 b2 b3 b4] [c1 c2 c3 c4] [d1 d2 d3 d4]]. unfold acts. rred. f_equal; ring. Qed.

(* where the edge cylinder's points are: with c the circle outline of the edge radius,
     bottom point j = s + F(c_j),   top point j = bottom point j + (e - s),
   F an isometry, so every bottom point is at the edge radius from s in the plane through s perpendicular to e - s *)
Definition edge_point (s e : V3) (c : V2) : V3 := pt3_add (acts (mt4_look_at_lh s e up_z) (Pt3 (x2 c) (y2 c) 0)) s.

Theorem edge_cylinder_points (r : R) (segments : Z) (s e : V3) (c : list V2) ph : s <> e ->
  circle r segments = Some c -> cylinder r (pt3_len (pt3_sub e s)) segments = Some ph ->
  fst (poly_translate (poly_apply_matrix ph (mt4_look_at_lh s e up_z)) s) =
    map (edge_point s e) c ++ map (fun p => pt3_add (edge_point s e p) (pt3_sub e s)) c.
Proof.
  intros Hne Hc Hcyl. unfold cylinder in Hcyl. rewrite Hc in Hcyl.
  unfold linear_extrude in Hcyl. destruct (triangulate2d_rev c); [|discriminate]. destruct (triangulate2d c); [|discriminate].
  apply some_inj in Hcyl. rewrite <- Hcyl. unfold poly_translate, poly_apply_matrix, pt3s_translate, pt3s_apply_matrix. cbv beta iota delta [fst].
  rewrite !map_app, !map_map. f_equal; apply map_ext; intros p.
  - rewrite look_at_no_translation. unfold edge_point, pt2_as_pt3. reflexivity.
  - rewrite look_at_no_translation. unfold edge_point, pt2_as_pt3. rewrite acts_add_z. rewrite (look_at_forward s e Hne), (len_times_direction s e Hne).
    generalize (acts (mt4_look_at_lh s e up_z) (Pt3 (x2 p) (y2 p) 0)). intros [ax ay az]. destruct s as [sx sy sz], e as [ex ey ez]. rred. f_equal; ring.
Qed.
Theorem edge_point_on_circle (s e : V3) (c : V2) : s <> e ->
  let d := pt3_sub (edge_point s e c) s in
  pt3_dot d d = x2 c * x2 c + y2 c * y2 c /\ pt3_dot d (pt3_sub e s) = 0.
Proof.
  intros Hne d. unfold d, edge_point.
  assert (E : pt3_sub (pt3_add (acts (mt4_look_at_lh s e up_z) (Pt3 (x2 c) (y2 c) 0)) s) s = acts (mt4_look_at_lh s e up_z) (Pt3 (x2 c) (y2 c) 0)).
  { generalize (acts (mt4_look_at_lh s e up_z) (Pt3 (x2 c) (y2 c) 0)). intros [ax ay az]. destruct s as [sx sy sz]. rred. f_equal; ring. }
  rewrite E. split.
  - rewrite (look_at_isometry s e up_z Hne). rred. ring.
  - rewrite <- (len_times_direction s e Hne), <- (look_at_forward s e Hne).
    set (m := mt4_look_at_lh s e up_z). set (h := pt3_len (pt3_sub e s)).
    assert (Hm : pt3_mul (acts m (Pt3 0 0 1)) h = acts m (Pt3 0 0 h)).
    { destruct m as [[a1 a2 a3 a4] [b1 b2 b3 b4] [c1 c2 c3 c4] [d1 d2 d3 d4]]. unfold acts. rred. f_equal; ring. }
    rewrite Hm. unfold m. rewrite (look_at_isometry s e up_z Hne). rred. ring.
Qed.
