(* Parts/Thread.v -- mirror of scad_tree/src/metric_thread.rs: table lookup, thread mesh, part trees. *)
From Coq Require Import ZArith NArith List Bool String.
From SCAD Require Import Base.Num Base.Vec Geom.Dim2 Geom.Dim3 Text.Chars Text.Tree Gen.ThreadTable.
Import ListNotations.
Local Open Scope num_scope.

(* ---- table lookup (no numbers involved) ---- *)
Definition row := (Z * (Z * Z) * (Z * Z) * (Z * Z) * (Z * Z) * (Z * Z))%type.
Definition row_key (r : row) : Z := let '(k, _, _, _, _, _) := r in k.
Definition has_key (m : Z) : bool := existsb (fun r => Z.eqb (row_key r) m) thread_rows.
Definition find_row (m : Z) : option row := find (fun r => Z.eqb (row_key r) m) thread_rows.
(* the Rust loop: clamp below 2, decrement until a key is found; fuel = m (enough: 2 is a key) *)
Fixpoint lookup_loop (fuel : nat) (m : Z) : option row :=
  match fuel with
  | O => None
  | S f => if has_key m then find_row m else lookup_loop f (m - 1)%Z
  end.
Definition m_table_lookup (m : Z) : option row :=
  let m' := if (m <? 2)%Z then 2%Z else m in lookup_loop (S (Z.to_nat m')) m'.
(* what the property says: the largest listed size not above max(m, 2) *)
Definition lookup_spec (m : Z) : option row :=
  let m' := Z.max m 2 in
  let below := filter (fun r => (row_key r <=? m')%Z) thread_rows in
  match below with
  | [] => None
  | r0 :: tl => Some (fold_left (fun best r => if (row_key best <? row_key r)%Z then r else best) tl r0)
  end.

Section Thread.
  Context {T : Type} `{Num T}.
  Notation pt3 := (pt3 T).
  Definition qv (q : Z * Z) : T := nlit (fst q) (snd q).
  Definition r_pitch (r : row) : T := let '(_, p, _, _, _, _) := r in qv p.
  Definition r_ext (r : row) : T := let '(_, _, e, _, _, _) := r in qv e.
  Definition r_int (r : row) : T := let '(_, _, _, i, _, _) := r in qv i.
  Definition r_nut (r : row) : T := let '(_, _, _, _, n, _) := r in qv n.
  Definition r_chamfer (r : row) : T := let '(_, _, _, _, _, c) := r in qv c.

  Definition thread_height_from_pitch (pitch : T) : T := nsqrt nthree / ntwo * pitch.
  Definition d_min_from_d_maj_pitch (d_maj pitch : T) : T :=
    d_maj - ntwo * nofZ 5 / nofZ 8 * thread_height_from_pitch pitch.

  Definition tlerp (s e : pt3) (n_steps step : Z) : pt3 :=
    pt3_add s (pt3_mul (pt3_div (pt3_sub e s) (nofZ n_steps)) (nofZ step)).

  (* state of the step loop *)
  Record tstate := TS { ts_in_step : Z; ts_out_step : Z; ts_in1 : pt3; ts_in3 : pt3; ts_out1 : pt3; ts_out3 : pt3;
                        ts_verts : list pt3 (* reversed *); ts_idx : list Z (* reversed *) }.

  Definition ring_faces (left : bool) (off : Z) : list Z :=
    let o k := (k + off)%Z in
    map o (if left then [3; 5; 1; 7; 5; 3; 1; 4; 0; 5; 4; 1; 0; 6; 2; 4; 6; 0; 2; 7; 3; 6; 7; 2]
           else [1; 5; 3; 3; 5; 7; 0; 4; 1; 1; 4; 5; 2; 6; 0; 0; 6; 4; 3; 7; 2; 2; 7; 6])%Z.

  (* the vertices and triangle indices of the thread polyhedron *)
  Definition thread_mesh (d_min d_maj pitch length : T) (segments : Z) (lead_in_degrees lead_out_degrees : T) (left : bool)
    : list pt3 * list Z :=
    let lead_in := nzero <? lead_in_degrees in
    let lead_out := nzero <? lead_out_degrees in
    let thread_length := length - nlit 7 10 * pitch in
    let n_revolutions := thread_length / pitch in
    let n_steps := ntrunc (n_revolutions * nofZ segments) in
    let z_step := thread_length / nofZ n_steps in
    let step_angle := nofZ 360 / nofZ segments in
    let n_lead_in_steps := ntrunc (nofZ segments * lead_in_degrees / nofZ 360 + ntwo) in
    let n_lead_out_steps := ntrunc (nofZ segments * lead_out_degrees / nofZ 360) in
    let tp0 := Pt3 (d_min / ntwo) nzero (nthree / nofZ 4 * pitch) in
    let tp1 := Pt3 (d_maj / ntwo) nzero (nofZ 7 / nofZ 16 * pitch) in
    let tp2 := Pt3 (d_min / ntwo) nzero nzero in
    let tp3 := Pt3 (d_maj / ntwo) nzero (nofZ 5 / nofZ 16 * pitch) in
    let lerp1 := Pt3 (d_min / ntwo) nzero (nofZ 7 / nofZ 16 * pitch) in
    let lerp3 := Pt3 (d_min / ntwo) nzero (nofZ 5 / nofZ 16 * pitch) in
    let in_start1 := tlerp lerp1 tp1 n_lead_in_steps 2 in
    let in_start3 := tlerp lerp3 tp3 n_lead_in_steps 2 in
    let out_end1 := tlerp lerp1 tp1 n_lead_out_steps 1 in
    let out_end3 := tlerp lerp3 tp3 n_lead_out_steps 1 in
    let start_faces := if left then [2; 1; 0; 3; 1; 2]%Z else [0; 1; 2; 2; 1; 3]%Z in
    let st0 := TS 3 n_lead_out_steps in_start1 in_start3 tp1 tp3 (rev [tp0; in_start1; tp2; in_start3]) (rev start_faces) in
    let body (st : tstate) (step : Z) : tstate :=
      let angle0 := step_angle * nofZ (step + 1) in
      let angle := if left then angle0 * (- none_) else angle0 in
      let c := dcos angle in let s := dsin angle in
      let mk (p : pt3) := Pt3 (c * x3 p) (s * x3 p) (z_step * nofZ step + z3 p) in
      let '(ps, st') :=
        if (ts_in_step st <? n_lead_in_steps)%Z && lead_in then
          let i' := (ts_in_step st + 1)%Z in
          ([mk tp0; mk (ts_in1 st); mk tp2; mk (ts_in3 st)],
           TS i' (ts_out_step st) (tlerp in_start1 tp1 n_lead_in_steps i') (tlerp in_start3 tp3 n_lead_in_steps i')
              (ts_out1 st) (ts_out3 st) (ts_verts st) (ts_idx st))
        else if (0 <? ts_out_step st)%Z && (n_steps - n_lead_out_steps <=? step)%Z && lead_out then
          let o' := (ts_out_step st - 1)%Z in
          ([mk tp0; mk (ts_out1 st); mk tp2; mk (ts_out3 st)],
           TS (ts_in_step st) o' (ts_in1 st) (ts_in3 st)
              (tlerp tp1 out_end1 n_lead_out_steps (n_lead_out_steps - o')) (tlerp tp3 out_end3 n_lead_out_steps (n_lead_out_steps - o'))
              (ts_verts st) (ts_idx st))
        else ([mk tp0; mk tp1; mk tp2; mk tp3], st) in
      TS (ts_in_step st') (ts_out_step st') (ts_in1 st') (ts_in3 st') (ts_out1 st') (ts_out3 st')
         (rev ps ++ ts_verts st') (rev (ring_faces left (step * 4)) ++ ts_idx st') in
    let stf := fold_left body (map Z.of_nat (seq 0 (Z.to_nat (n_steps - 1)))) st0 in
    let off := ((n_steps - 2) * 4)%Z in
    let end_faces := if left then [5 + off; 7 + off; 6 + off; 4 + off; 5 + off; 6 + off]%Z
                     else [6 + off; 7 + off; 5 + off; 6 + off; 5 + off; 4 + off]%Z in
    (rev (ts_verts stf), rev (ts_idx stf) ++ end_faces).

  Notation tree := (scad T text).
  Definition tz (z : T) (cs : list tree) : tree := Node (Translate (P3 nzero nzero z)) cs.
  Definition poly_leaf (ph : list pt3 * list (list Z)) (convexity : N) : tree :=
    Node (Polyhedron (map (fun p => P3 (x3 p) (y3 p) (z3 p)) (fst ph)) (map (map Z.to_N) (snd ph)) convexity) [].

  Definition threaded_cylinder (d_min d_maj pitch length : T) (segments : Z) (li lo : T) (left center : bool) : option tree :=
    let '(verts, idx) := thread_mesh d_min d_maj pitch length segments li lo left in
    let convexity := Z.to_N (ntrunc (length / pitch) + 1) in
    match cylinder (d_min / ntwo + nlit 1 10000) length segments with
    | Some rod =>
        let result := Node Union [poly_leaf (verts, triples idx 0) convexity; poly_leaf rod 1%N] in
        Some (if center then tz ((- length) / ntwo) [result] else result)
    | None => None
    end.

  Definition threaded_rod (m : Z) (length : T) (segments : Z) (li lo : T) (left center : bool) : option tree :=
    match m_table_lookup m with
    | Some r => threaded_cylinder (d_min_from_d_maj_pitch (r_ext r) (r_pitch r)) (r_ext r) (r_pitch r) length segments li lo left center
    | None => None
    end.
  Definition tap (m : Z) (length : T) (segments : Z) (left center : bool) : option tree :=
    match m_table_lookup m with
    | Some r => threaded_cylinder (d_min_from_d_maj_pitch (r_int r) (r_pitch r)) (r_int r) (r_pitch r) length segments nzero nzero left center
    | None => None
    end.

  (* scad.rs: external_circle_chamfer / external_cylinder_chamfer / polar_array *)
  Definition external_circle_chamfer (size oversize radius degrees : T) (segments : Z) : tree :=
    Node (RotateExtrude degrees 5%N None None (Some (Z.to_N segments)))
      [Node (Translate (P3 (radius + size / ntwo + oversize / ntwo) (- oversize) nzero))
         [Node (Rotate (Some (nofZ 90)) true (P3 nzero nzero nzero))
            [Node (Polygon (map (fun p => P2 (x2 p) (y2 p)) (chamfer size oversize)) None 1%N) []]]].
  Definition external_cylinder_chamfer (size oversize radius height : T) (segments : Z) (center : bool) : tree :=
    let ecc := external_circle_chamfer size oversize radius (nofZ 360) segments in
    let result := Node Union [ecc; tz height [Node (Rotate None false (P3 (nofZ 180) nzero nzero)) [ecc]]] in
    if center then tz ((- height) / ntwo) [result] else result.
  (* None = assert!(degrees <= 360.0) *)
  Definition polar_array (s : tree) (count : Z) (degrees : T) : option tree :=
    if degrees <=? nofZ 360 then
      let steps := if degrees =? nofZ 360 then count else (count - 1)%Z in
      Some (fold_left (fun result i => Node Union [result; Node (Rotate None false (P3 nzero nzero ((nofZ i * (- degrees)) / nofZ steps))) [s]])
                      (map Z.of_nat (seq 0 (Z.to_nat count))) s)
    else None.

  Definition hex_head (width height : T) : option tree :=
    match circumscribed_polygon 6 (width / ntwo) with
    | Some prof => option_map (fun ph => poly_leaf ph 1%N) (linear_extrude prof height)
    | None => None
    end.
  Definition chamfer_radius (w : T) : T := nsqrt (nlit 1 4 * w * nlit 1 4 * w + nlit 1 2 * w * nlit 1 2 * w).

  Definition hex_bolt (m : Z) (length head_height : T) (segments : Z) (lead_in_degrees : T) (chamfered left center : bool) : option tree :=
    match m_table_lookup m with
    | None => None
    | Some r =>
        let pitch := r_pitch r in let d_maj := r_ext r in let hd := r_nut r in
        match threaded_cylinder (d_min_from_d_maj_pitch d_maj pitch) d_maj pitch length segments nzero lead_in_degrees left false,
              hex_head hd head_height with
        | Some rod, Some head =>
            let rod := tz head_height [rod] in
            let head := if chamfered
                        then Node Difference [head; external_cylinder_chamfer (r_chamfer r) none_ (chamfer_radius hd) head_height segments false]
                        else head in
            let bolt := Node Union [rod; head] in
            Some (if center then tz (- ((head_height + length) / ntwo)) [bolt] else bolt)
        | _, _ => None
        end
    end.

  Definition hex_nut (m : Z) (height : T) (segments : Z) (chamfered left center : bool) : option tree :=
    match m_table_lookup m with
    | None => None
    | Some r =>
        let w := r_nut r in
        match tap m (height + nofZ 20) segments left false, hex_head w height with
        | Some nut_tap, Some blank =>
            let nut_tap := tz (- nofZ 10) [nut_tap] in
            let nut := Node Difference [blank; nut_tap] in
            let nut := if chamfered
                       then Node Difference [nut; external_cylinder_chamfer (r_chamfer r) none_ (chamfer_radius w) height segments false]
                       else nut in
            Some (if center then tz ((- height) / ntwo) [nut] else nut)
        | _, _ => None
        end
    end.

  (* ---- pipe.rs ---- *)
  Definition cyl (h d1 d2 : T) (center : bool) (fn_ : Z) : tree :=
    Node (Cylinder h (d1 / ntwo) (d2 / ntwo) center None None (Some (Z.to_N fn_))) [].
  (* None = an assert! fails *)
  Definition pipe_straight (od wall length : T) (center : bool) (fn_ : Z) : option tree :=
    if nzero <? od - wall * ntwo then
      Some (Node Difference [cyl length od od center fn_;
                             tz (if center then nzero else - none_) [cyl (length + ntwo) (od - wall * ntwo) (od - wall * ntwo) center fn_]])
    else None.
  Definition pipe_straight_solid (od length : T) (center : bool) (fn_ : Z) : tree := cyl length od od center fn_.
  Definition pipe_tapered (od1 od2 wall length : T) (center : bool) (fn_ : Z) : option tree :=
    if (nzero <? od1 - wall * ntwo) && (nzero <? od2 - wall * ntwo) then
      Some (Node Difference [cyl length od1 od2 center fn_;
                             tz (if center then nzero else - nlit 1 1000)
                                [cyl (length + nlit 2 1000) (od1 - wall * ntwo) (od2 - wall * ntwo) center fn_]])
    else None.
  Definition pipe_tapered_solid (od1 od2 length : T) (center : bool) (fn_ : Z) : tree := cyl length od1 od2 center fn_.
  Definition circ (d : T) (fn_ : Z) : tree := Node (Circle (d / ntwo) None None (Some (Z.to_N fn_))) [].
  Definition curved_wrap (od degrees radius : T) (fn_ : Z) (section : tree) : tree :=
    Node (Translate (P3 ((- od) / ntwo - radius) nzero nzero))
      [Node (Rotate None false (P3 (nofZ 90) nzero nzero))
         [Node (RotateExtrude degrees 4%N None None (Some (Z.to_N fn_)))
            [Node (Translate (P3 (od / ntwo + radius) nzero nzero)) [section]]]].
  Definition pipe_curved (od wall degrees radius : T) (fn_ : Z) : option tree :=
    if (nzero <? od - wall * ntwo) && (nzero <? degrees) && (degrees <=? nofZ 360) then
      Some (curved_wrap od degrees radius fn_ (Node Difference [circ od fn_; circ (od - wall * ntwo) fn_]))
    else None.
  Definition pipe_curved_solid (od degrees radius : T) (fn_ : Z) : option tree :=
    if (nzero <? degrees) && (degrees <=? nofZ 360) then Some (curved_wrap od degrees radius fn_ (circ od fn_)) else None.
End Thread.
