(* Parts/Thread_proofs.v -- C16: the table lookup for every m, and facts about every listed size. Axiom-free
   except the d_min formula (over R). *)
From Coq Require Import ZArith List Bool Lia.
From SCAD Require Import Gen.ThreadTable Parts.Thread.
Import ListNotations.
Local Open Scope Z_scope.

Lemma has_key_iff m : has_key m = true <-> exists r, In r thread_rows /\ row_key r = m.
Proof.
  unfold has_key. rewrite existsb_exists. split; intros [r [Hin Hk]]; exists r; split; try assumption.
  - apply Z.eqb_eq. assumption.
  - apply Z.eqb_eq. assumption.
Qed.
Lemma find_row_some m r : find_row m = Some r -> In r thread_rows /\ row_key r = m.
Proof. unfold find_row. intros H. apply find_some in H as [Hin Hk]. split; [assumption|apply Z.eqb_eq; assumption]. Qed.
Lemma has_key_find m : has_key m = true -> exists r, find_row m = Some r.
Proof.
  intros H. destruct (find_row m) eqn:E; [eexists; reflexivity|].
  apply has_key_iff in H as [r [Hin Hk]]. unfold find_row in E.
  pose proof (find_none _ _ E r Hin) as Hn. cbn in Hn. rewrite Hk, Z.eqb_refl in Hn. discriminate.
Qed.
Lemma two_is_a_key : has_key 2 = true. Proof. vm_compute. reflexivity. Qed.

(* the loop: starting at m >= 2 with enough fuel it stops at the largest key <= m *)
Lemma lookup_loop_spec fuel : forall m, 2 <= m -> (Z.to_nat (m - 2) < fuel)%nat ->
  exists r, lookup_loop fuel m = Some r /\ In r thread_rows /\ row_key r <= m /\
            forall r', In r' thread_rows -> row_key r' <= m -> row_key r' <= row_key r.
Proof.
  induction fuel as [|fuel IH]; intros m Hm Hf; [lia|]. cbn [lookup_loop].
  destruct (has_key m) eqn:Ek.
  - destruct (has_key_find m Ek) as [r Hr]. exists r. destruct (find_row_some m r Hr) as [Hin Hk].
    split; [assumption|]. split; [assumption|]. split; [lia|]. intros r' _ Hle. lia.
  - assert (Hm2 : m <> 2) by (intro; subst; rewrite two_is_a_key in Ek; discriminate).
    destruct (IH (m - 1) ltac:(lia) ltac:(lia)) as [r (Hl & Hin & Hle & Hmax)].
    exists r. split; [assumption|]. split; [assumption|]. split; [lia|].
    intros r' Hin' Hle'. apply Hmax; [assumption|].
    destruct (Z.eq_dec (row_key r') m) as [E|E]; [|lia].
    exfalso. assert (has_key m = true) by (apply has_key_iff; exists r'; split; assumption). congruence.
Qed.

(* every m in Z: a size missing from the table uses the next smaller listed size, M2 below the table *)
Theorem lookup_total_and_largest_below (m : Z) :
  exists r, m_table_lookup m = Some r /\ In r thread_rows /\ row_key r <= Z.max m 2 /\
            forall r', In r' thread_rows -> row_key r' <= Z.max m 2 -> row_key r' <= row_key r.
Proof.
  unfold m_table_lookup. destruct (Z.ltb_spec m 2) as [Hlt | Hge].
  - rewrite Z.max_r by lia. apply lookup_loop_spec; [lia|]. cbn. lia.
  - rewrite Z.max_l by lia. apply lookup_loop_spec; [lia|]. lia.
Qed.
Lemma keys_at_least_2 r : In r thread_rows -> 2 <= row_key r.
Proof.
  assert (H : forallb (fun r => 2 <=? row_key r) thread_rows = true) by (vm_compute; reflexivity).
  rewrite forallb_forall in H. intros Hin. apply Z.leb_le. apply H. assumption.
Qed.
Corollary lookup_listed_size (m : Z) : has_key m = true -> exists r, m_table_lookup m = Some r /\ row_key r = m.
Proof.
  intros Hk. destruct (lookup_total_and_largest_below m) as [r (Hl & Hin & Hle & Hmax)].
  exists r. split; [assumption|]. apply has_key_iff in Hk as [r' [Hin' Hk']].
  pose proof (keys_at_least_2 r' Hin') as H2. rewrite Z.max_l in * by lia.
  specialize (Hmax r' Hin' ltac:(lia)). lia.
Qed.

(* every listed size: the internal thread is larger than the external one (exact rationals), positive pitch *)
Definition qlt (a b : Z * Z) : bool := (fst a * snd b <? fst b * snd a) && (0 <? snd a) && (0 <? snd b).
Definition row_fits (r : row) : bool :=
  let '(_, p, e, i, _, _) := r in qlt e i && qlt (0, 1) p.
Theorem every_row_fits : forallb row_fits thread_rows = true.
Proof. vm_compute. reflexivity. Qed.
Theorem keys_distinct : NoDup (map row_key thread_rows).
Proof.
  assert (H : (fix nd (l : list Z) : bool := match l with [] => true | x :: tl => negb (existsb (Z.eqb x) tl) && nd tl end) (map row_key thread_rows) = true)
    by (vm_compute; reflexivity).
  revert H. generalize (map row_key thread_rows). induction l as [|x l IH]; intros H; constructor.
  - apply andb_prop in H as [H _]. apply negb_true_iff in H. intro Hin.
    assert (existsb (Z.eqb x) l = true) by (apply existsb_exists; exists x; split; [assumption|apply Z.eqb_refl]). congruence.
  - apply IH. apply andb_prop in H as [_ H]. exact H.
Qed.
