(* Parts/Parts_proofs.v -- C14, C15, C17 on the part models (real reading). *)
From Coq Require Import Reals ZArith NArith List Bool Lra Lia.
From SCAD Require Import Base.Num Base.NumR Base.Trig_proofs Base.Vec Base.Mat Base.Mat_proofs Geom.Dim2 Geom.Dim3 Text.Chars Text.Tree Parts.Thread Parts.Sem.
Import ListNotations.
Local Open Scope R_scope.

Definition tzR (z : R) (t : rtree) : rtree := Node (Translate (P3 0 0 z)) [t].

(* ---------------- C14 ---------------- *)
Lemma center_threaded_cylinder d_min d_maj pitch length seg li lo left :
  threaded_cylinder d_min d_maj pitch length seg li lo left true =
  option_map (tzR (- length / 2)) (threaded_cylinder d_min d_maj pitch length seg li lo left false).
Proof.
  unfold threaded_cylinder. destruct (thread_mesh _ _ _ _ _ _ _ _) as [verts idx].
  destruct (cylinder _ _ _); reflexivity.
Qed.
Lemma center_threaded_rod m length seg li lo left :
  threaded_rod m length seg li lo left true = option_map (tzR (- length / 2)) (threaded_rod m length seg li lo left false).
Proof. unfold threaded_rod. destruct (m_table_lookup m); [apply center_threaded_cylinder|reflexivity]. Qed.
Lemma center_tap m length seg left :
  tap m length seg left true = option_map (tzR (- length / 2)) (tap m length seg left false).
Proof. unfold tap. destruct (m_table_lookup m); [apply center_threaded_cylinder|reflexivity]. Qed.
Lemma center_hex_bolt m length hh seg li ch left :
  hex_bolt m length hh seg li ch left true = option_map (tzR (- ((hh + length) / 2))) (hex_bolt m length hh seg li ch left false).
Proof.
  unfold hex_bolt. destruct (m_table_lookup m); [|reflexivity].
  destruct (threaded_cylinder _ _ _ _ _ _ _ _ _); [|reflexivity]. destruct (hex_head _ _); reflexivity.
Qed.
Lemma center_hex_nut m height seg ch left :
  hex_nut m height seg ch left true = option_map (tzR (- height / 2)) (hex_nut m height seg ch left false).
Proof.
  unfold hex_nut. destruct (m_table_lookup m); [|reflexivity].
  destruct (tap _ _ _ _ _); [|reflexivity]. destruct (hex_head _ _); reflexivity.
Qed.
Lemma center_cylinder_chamfer size oversize radius height seg :
  external_cylinder_chamfer size oversize radius height seg true =
  tzR (- height / 2) (external_cylinder_chamfer size oversize radius height seg false).
Proof. reflexivity. Qed.

(* what "only translates" means: every placed sub-part moved by (0, 0, -H/2), same leaves, same nesting *)
Lemma centred_is_moved (z : R) (t : rtree) :
  flatten mt4_identity [] (tzR z t) = map (move (mt4_translate_matrix 0 0 z)) (flatten mt4_identity [] t).
Proof. apply (translate_on_top (P3 0 0 z)). Qed.

(* ---------------- C15 ---------------- *)
(* z-extent of a cylinder of height h (centred or not) lifted by dz *)
Definition z_lo (h : R) (center : bool) (dz : R) : R := dz + (if center then - h / 2 else 0).
Definition z_hi (h : R) (center : bool) (dz : R) : R := dz + (if center then h / 2 else h).

Lemma pipe_straight_shape od wall length center fn_ : 0 < od - wall * 2 ->
  pipe_straight od wall length center fn_ =
  Some (Node Difference [pipe_straight_solid od length center fn_;
                         tzR (if center then 0 else -1) (cyl (length + 2) (od - wall * 2) (od - wall * 2) center fn_)]).
Proof.
  intros Hpos. unfold pipe_straight. cbn [nltb nzero nsub nmul ntwo nofZ NumR].
  destruct (Rltb 0 (od - wall * 2)) eqn:E; [|apply Rltb_false in E; lra].
  unfold pipe_straight_solid, tzR, tz. cbn [nzero none_ nneg nadd ntwo nofZ NumR]. destruct center; reflexivity.
Qed.
Lemma straight_bore_through (length : R) (center : bool) : 0 < length ->
  let dz : R := if center then 0 else -1 in
  z_lo (length + 2) center dz < z_lo length center 0 /\ z_hi length center 0 < z_hi (length + 2) center dz.
Proof. intros Hl. unfold z_lo, z_hi. destruct center; cbv zeta; split; lra. Qed.

Lemma pipe_tapered_shape od1 od2 wall length center fn_ : 0 < od1 - wall * 2 -> 0 < od2 - wall * 2 ->
  pipe_tapered od1 od2 wall length center fn_ =
  Some (Node Difference [pipe_tapered_solid od1 od2 length center fn_;
                         tzR (if center then 0 else - (1 / 1000)) (cyl (length + 2 / 1000) (od1 - wall * 2) (od2 - wall * 2) center fn_)]).
Proof.
  intros H1 H2. unfold pipe_tapered. cbn [nltb nzero nsub nmul ntwo nofZ NumR].
  destruct (Rltb 0 (od1 - wall * 2)) eqn:E1; [|apply Rltb_false in E1; lra].
  destruct (Rltb 0 (od2 - wall * 2)) eqn:E2; [|apply Rltb_false in E2; lra].
  unfold pipe_tapered_solid, tzR, tz, nlit. cbn [andb nzero none_ nneg nadd ndiv ntwo nofZ NumR]. destruct center; reflexivity.
Qed.
Lemma tapered_bore_through (length : R) (center : bool) : 0 < length ->
  let dz : R := if center then 0 else - (1 / 1000) in
  z_lo (length + 2 / 1000) center dz < z_lo length center 0 /\ z_hi length center 0 < z_hi (length + 2 / 1000) center dz.
Proof. intros Hl. unfold z_lo, z_hi. destruct center; cbv zeta; split; lra. Qed.

(* curved: hollow and solid share the wrapper; the section centre (od/2 + radius, 0) is carried to x = 0 *)
Lemma pipe_curved_shape od wall degrees radius fn_ : 0 < od - wall * 2 -> 0 < degrees <= 360 ->
  pipe_curved od wall degrees radius fn_ =
    Some (curved_wrap od degrees radius fn_ (Node Difference [circ od fn_; circ (od - wall * 2) fn_])) /\
  pipe_curved_solid od degrees radius fn_ = Some (curved_wrap od degrees radius fn_ (circ od fn_)).
Proof.
  intros H1 [H2 H3]. unfold pipe_curved, pipe_curved_solid. cbn [nltb nleb nzero nsub nmul ntwo nofZ NumR].
  destruct (Rltb 0 (od - wall * 2)) eqn:E1; [|apply Rltb_false in E1; lra].
  destruct (Rltb 0 degrees) eqn:E2; [|apply Rltb_false in E2; lra].
  destruct (Rleb degrees 360) eqn:E3; [|apply Rleb_false in E3; lra]. split; reflexivity.
Qed.
Lemma curved_starts_at_origin od radius : (- od / 2 - radius) + (od / 2 + radius) = 0.
Proof. field. Qed.

(* the stated bore: radius od/2 - wall, strictly inside the body wherever the wall is positive *)
Lemma pipe_wall_thickness od wall : 0 < wall -> 0 < od - wall * 2 ->
  (od - wall * 2) / 2 = od / 2 - wall /\ 0 < (od - wall * 2) / 2 < od / 2.
Proof. intros Hw Hb. split; [|split]; lra. Qed.

(* placement semantics of a straight / tapered pipe: exactly two leaves under one difference -- the body at the
   identity and, in the subtracted position, the bore under a pure z translation (so: same axis) *)
Lemma pipe_straight_placed od wall length center fn_ : 0 < od - wall * 2 ->
  option_map (flatten mt4_identity []) (pipe_straight od wall length center fn_) =
  Some [([(Difference, 0%nat)], mt4_identity,
         Cylinder length (od / 2) (od / 2) center None None (Some (Z.to_N fn_)));
        ([(Difference, 1%nat)], mt4_translate_matrix 0 0 (if center then 0 else -1),
         Cylinder (length + 2) ((od - wall * 2) / 2) ((od - wall * 2) / 2) center None None (Some (Z.to_N fn_)))].
Proof.
  intros Hpos. rewrite (pipe_straight_shape _ _ _ _ _ Hpos). unfold pipe_straight_solid, cyl, tzR.
  cbn [option_map flatten mat_of_op flat_map app p3x p3y p3z ndiv ntwo nofZ NumR]. rewrite mt4_mul_identity_l. reflexivity.
Qed.
Lemma pipe_tapered_placed od1 od2 wall length center fn_ : 0 < od1 - wall * 2 -> 0 < od2 - wall * 2 ->
  option_map (flatten mt4_identity []) (pipe_tapered od1 od2 wall length center fn_) =
  Some [([(Difference, 0%nat)], mt4_identity,
         Cylinder length (od1 / 2) (od2 / 2) center None None (Some (Z.to_N fn_)));
        ([(Difference, 1%nat)], mt4_translate_matrix 0 0 (if center then 0 else - (1 / 1000)),
         Cylinder (length + 2 / 1000) ((od1 - wall * 2) / 2) ((od2 - wall * 2) / 2) center None None (Some (Z.to_N fn_)))].
Proof.
  intros H1 H2. rewrite (pipe_tapered_shape _ _ _ _ _ _ H1 H2). unfold pipe_tapered_solid, cyl, tzR.
  cbn [option_map flatten mat_of_op flat_map app p3x p3y p3z ndiv ntwo nofZ NumR]. rewrite mt4_mul_identity_l. reflexivity.
Qed.

(* the accumulated matrix above the rotate_extrude of a curved pipe, and where it sends the section centre *)
Lemma curved_placed od degrees radius fn_ (section : rtree) :
  mat_of_op (Translate (P3 (od / 2 + radius) 0 0)) = Some (mt4_translate_matrix (od / 2 + radius) 0 0) /\
  exists inner,
  flatten mt4_identity [] (curved_wrap od degrees radius fn_ section) =
  flatten (mt4_mul (mt4_mul mt4_identity (mt4_translate_matrix (- od / 2 - radius) 0 0))
                   (mt4_mul (mt4_rot_z_matrix 0) (mt4_mul (mt4_rot_y_matrix 0) (mt4_rot_x_matrix 90)))) [] inner /\
  inner = Node (RotateExtrude degrees 4%N None None (Some (Z.to_N fn_))) [Node (Translate (P3 (od / 2 + radius) 0 0)) [section]].
Proof.
  split; [reflexivity|]. eexists. split; [|reflexivity].
  unfold curved_wrap. cbn [flatten mat_of_op flat_map p3x p3y p3z ndiv ntwo nofZ nneg nsub nzero NumR]. rewrite !app_nil_r. reflexivity.
Qed.
Lemma rot_x_fixes_x_axis (a x : R) : mt4_mul_pt4 (mt4_rot_x_matrix a) (Pt4 x 0 0 1) = Pt4 x 0 0 1.
Proof. unfold mt4_rot_x_matrix. munfold. f_equal; ring. Qed.
Lemma rot_y_0 (p : pt4 R) : mt4_mul_pt4 (mt4_rot_y_matrix 0) p = p.
Proof. destruct p as [p0 p1 p2 p3]. unfold mt4_rot_y_matrix. munfold. fold NumR. rewrite dsin_0, dcos_0. f_equal; ring. Qed.
Lemma rot_z_0 (p : pt4 R) : mt4_mul_pt4 (mt4_rot_z_matrix 0) p = p.
Proof. destruct p as [p0 p1 p2 p3]. unfold mt4_rot_z_matrix. munfold. fold NumR. rewrite dsin_0, dcos_0. f_equal; ring. Qed.
Lemma translate_x_axis (t x : R) : mt4_mul_pt4 (mt4_translate_matrix t 0 0) (Pt4 x 0 0 1) = Pt4 (x + t) 0 0 1.
Proof. munfold. f_equal; ring. Qed.
Lemma curved_centre_lands_on_origin od radius :
  mt4_mul_pt4 (mt4_mul (mt4_mul mt4_identity (mt4_translate_matrix (- od / 2 - radius) 0 0))
                       (mt4_mul (mt4_rot_z_matrix 0) (mt4_mul (mt4_rot_y_matrix 0) (mt4_rot_x_matrix 90))))
              (mt4_mul_pt4 (mt4_translate_matrix (od / 2 + radius) 0 0) (Pt4 0 0 0 1)) = Pt4 0 0 0 1.
Proof.
  rewrite mt4_mul_identity_l, !mt4_mul_pt_assoc, translate_x_axis, rot_x_fixes_x_axis, rot_y_0, rot_z_0, translate_x_axis.
  f_equal. field.
Qed.

(* ---------------- C17 ---------------- *)
Fixpoint unroll_union (t : rtree) : list rtree :=     (* left-deep unions, as built by `a + b` *)
  match t with
  | Node Union [a; b] => unroll_union a ++ [b]
  | _ => [t]
  end.
Definition rot_copy (s : rtree) (a : R) : rtree := Node (Rotate None false (P3 0 0 a)) [s].
Definition not_union (s : rtree) : Prop := match s with Node Union [_; _] => False | _ => True end.

Lemma unroll_fold (s : rtree) (f : Z -> R) (l : list Z) : forall acc,
  unroll_union (fold_left (fun result i => Node Union [result; Node (Rotate None false (P3 0 0 (f i))) [s]]) l acc) =
  unroll_union acc ++ map (fun i => rot_copy s (f i)) l.
Proof.
  induction l as [|i l IH]; intros acc; cbn [fold_left map]; [rewrite app_nil_r; reflexivity|].
  rewrite IH. cbn [unroll_union]. rewrite <- app_assoc. reflexivity.
Qed.
Lemma unroll_not_union (s : rtree) : not_union s -> unroll_union s = [s].
Proof.
  destruct s as [o cs]. destruct o; try reflexivity. destruct cs as [|a [|b [|c cs]]]; try reflexivity. intros H; contradiction.
Qed.
Lemma polar_array_unrolled (s : rtree) count degrees : not_union s -> degrees <= 360 ->
  let steps := if Reqb degrees 360 then count else (count - 1)%Z in
  exists t, polar_array s count degrees = Some t /\
    unroll_union t = s :: map (fun i => rot_copy s ((IZR i * (- degrees)) / IZR steps)) (map Z.of_nat (seq 0 (Z.to_nat count))).
Proof.
  intros Hs Hd. cbv zeta. unfold polar_array. cbn [nleb neqb nofZ NumR].
  destruct (Rleb degrees 360) eqn:E; [|apply Rleb_false in E; lra]. eexists. split; [reflexivity|].
  cbn [nzero nmul nneg ndiv nofZ NumR].
  rewrite (unroll_fold s (fun i => (IZR i * (- degrees)) / IZR (if Reqb degrees 360 then count else (count - 1)%Z))).
  rewrite unroll_not_union by assumption. reflexivity.
Qed.
Lemma polar_step_angle i count degrees : (1 <= count)%Z ->
  (IZR (Z.of_nat i) * (- degrees)) / IZR count = - (IZR (Z.of_nat i) * (degrees / IZR count)).
Proof. intros. field. apply not_0_IZR. lia. Qed.

(* cylinder chamfer: one cutter at the bottom, the same cutter turned over about X and lifted to the top *)
Lemma cylinder_chamfer_cutters size oversize radius height seg :
  external_cylinder_chamfer size oversize radius height seg false =
  Node Union [external_circle_chamfer size oversize radius 360 seg;
              Node (Translate (P3 0 0 height)) [Node (Rotate None false (P3 180 0 0)) [external_circle_chamfer size oversize radius 360 seg]]].
Proof. reflexivity. Qed.
(* rotate([180,0,0]) then lift by h is the reflection in z = h/2 composed with y -> -y, which a full solid of revolution about Z does not see *)
Lemma flip_is_mirror_about_mid_height (p : pt3 R) h :
  let q := pt3_add (pt3_rotated_x p 180) (Pt3 0 0 h) in
  x3 q = x3 p /\ y3 q = - y3 p /\ z3 q - h / 2 = - (z3 p - h / 2).
Proof.
  destruct p as [px py pz]. cbv zeta. unfold pt3_rotated_x, pt3_add. cbn [x3 y3 z3]. rewrite dcos_180, dsin_180.
  cbn [nadd nmul nsub NumR]. repeat split; lra.
Qed.

(* ---------------- C17, semantically: the placements of polar_array, for every seed s (also when s is itself a union) ---------------- *)
Definition placement := (M4 * scadop R text)%type.
Definition proj (p : placed) : placement := (snd (fst p), snd p).
Definition placements (t : rtree) : list placement := map proj (flatten mt4_identity [] t).
Definition premul (a : M4) (p : placement) : placement := (mt4_mul a (fst p), snd p).

(* the operators above an item do not influence where it is placed *)
Lemma flatten_ctx_irrelevant : forall t m c c', map proj (flatten m c t) = map proj (flatten m c' t).
Proof.
  induction t as [o cs IH] using scad_ind'. intros m c c'. cbn [flatten]. destruct (mat_of_op o) as [mo|].
  - induction IH as [|x l Hx Hl IHl]; [reflexivity|]. cbn [flat_map]. rewrite !map_app, (Hx _ c c'), IHl. reflexivity.
  - destruct cs as [|x0 l0]; [reflexivity|].
    assert (G : forall l, Forall (fun t => forall m c c', map proj (flatten m c t) = map proj (flatten m c' t)) l -> forall i,
        map proj ((fix go (l : list rtree) (i : nat) : list placed := match l with [] => [] | x :: l' => flatten m (c ++ [(o, i)]) x ++ go l' (S i) end) l i) =
        map proj ((fix go (l : list rtree) (i : nat) : list placed := match l with [] => [] | x :: l' => flatten m (c' ++ [(o, i)]) x ++ go l' (S i) end) l i)).
    { intros l Hl. induction Hl as [|x l Hx _ IHl]; intros i; [reflexivity|]. rewrite !map_app, (Hx m (c ++ [(o, i)]) (c' ++ [(o, i)])), IHl. reflexivity. }
    exact (G (x0 :: l0) IH 0%nat).
Qed.
Lemma placements_union (a b : rtree) : placements (Node Union [a; b]) = placements a ++ placements b.
Proof.
  unfold placements. cbn [flatten mat_of_op]. rewrite app_nil_r, map_app. cbn [app].
  rewrite (flatten_ctx_irrelevant a mt4_identity ([] ++ [(Union, 0%nat)]) []), (flatten_ctx_irrelevant b mt4_identity ([] ++ [(Union, 1%nat)]) []). reflexivity.
Qed.
Lemma proj_move a p : proj (move a p) = premul a (proj p).
Proof. destruct p as [[c m] o]. reflexivity. Qed.
Lemma placements_rot_copy (s : rtree) (a : R) :
  placements (rot_copy s a) = map (premul (mt4_mul (mt4_rot_z_matrix a) (mt4_mul (mt4_rot_y_matrix 0) (mt4_rot_x_matrix 0)))) (placements s).
Proof.
  unfold placements, rot_copy. cbn [flatten mat_of_op flat_map p3x p3y p3z]. rewrite app_nil_r, mt4_mul_identity_l.
  set (Rm := mt4_mul (mt4_rot_z_matrix a) (mt4_mul (mt4_rot_y_matrix 0) (mt4_rot_x_matrix 0))).
  rewrite <- (mt4_mul_identity_r Rm) at 1. rewrite flatten_move, !map_map. apply map_ext. intros p. apply proj_move.
Qed.

Theorem polar_array_placements (s : rtree) count degrees : degrees <= 360 ->
  let steps := if Reqb degrees 360 then count else (count - 1)%Z in
  exists t, polar_array s count degrees = Some t /\
    placements t = placements s ++
      flat_map (fun i => map (premul (mt4_mul (mt4_rot_z_matrix ((IZR i * (- degrees)) / IZR steps)) (mt4_mul (mt4_rot_y_matrix 0) (mt4_rot_x_matrix 0)))) (placements s))
               (map Z.of_nat (seq 0 (Z.to_nat count))).
Proof.
  intros Hd. cbv zeta. unfold polar_array. cbn [nleb neqb nofZ NumR].
  destruct (Rleb degrees 360) eqn:E; [|apply Rleb_false in E; lra]. eexists. split; [reflexivity|].
  cbn [nzero nmul nneg ndiv nofZ NumR].
  set (f := fun i : Z => (IZR i * (- degrees)) / IZR (if Reqb degrees 360 then count else (count - 1)%Z)).
  generalize (map Z.of_nat (seq 0 (Z.to_nat count))). intros l.
  assert (G : forall acc, placements (fold_left (fun result i => Node Union [result; Node (Rotate None false (P3 0 0 (f i))) [s]]) l acc) =
                          placements acc ++ flat_map (fun i => map (premul (mt4_mul (mt4_rot_z_matrix (f i)) (mt4_mul (mt4_rot_y_matrix 0) (mt4_rot_x_matrix 0)))) (placements s)) l).
  { induction l as [|i l IH]; intros acc; cbn [fold_left flat_map]; [rewrite app_nil_r; reflexivity|].
    rewrite IH, placements_union. fold (rot_copy s (f i)). rewrite placements_rot_copy, <- app_assoc. reflexivity. }
  apply G.
Qed.
(* rotate([0, 0, a]) is the rotation about Z by a *)
Lemma rot_zyx_is_rot_z (a : R) : mt4_mul (mt4_rot_z_matrix a) (mt4_mul (mt4_rot_y_matrix 0) (mt4_rot_x_matrix 0)) = mt4_rot_z_matrix a.
Proof.
  unfold mt4_rot_y_matrix, mt4_rot_x_matrix. rewrite dcos_0, dsin_0.
  lazy beta iota zeta delta [mt4_mul mt4_rot_z_matrix mt4_transposed dot4 mx my mz mw x4 y4 z4 w4 nadd nmul nneg nzero none_ NumR]; fold NumR.
  generalize (dcos a) (dsin a). intros c s. f_equal; f_equal; ring.
Qed.
