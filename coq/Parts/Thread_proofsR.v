(* Parts/Thread_proofsR.v -- ISO proportions on the real reading. *)
From Coq Require Import Reals ZArith Lra.
From SCAD Require Import Base.Num Base.NumR Parts.Thread.
Local Open Scope R_scope.

Lemma d_min_formula d_maj pitch :
  d_min_from_d_maj_pitch d_maj pitch = d_maj - 2 * (5 / 8) * (sqrt 3 / 2) * pitch.
Proof. unfold d_min_from_d_maj_pitch, thread_height_from_pitch. cbn [nsub nmul ndiv nsqrt ntwo nthree nofZ NumR]. field. Qed.
(* with the same pitch, a larger major diameter gives a larger minor diameter: the nut clears the bolt *)
Lemma minor_clearance ext int pitch : ext < int ->
  d_min_from_d_maj_pitch ext pitch < d_min_from_d_maj_pitch int pitch.
Proof. intros. rewrite !d_min_formula. lra. Qed.
