(* Parts/Sem.v -- placement semantics of a tree: every primitive with the transform accumulated on the way
   down and the path of non-transform operators above it. Over R; OpenSCAD conventions:
   translate, scale, rotate([x,y,z]) = Rz.Ry.Rx, rotate(a) = Rz(a), rotate(a, v) = rotation about v/|v|. *)
From Coq Require Import Reals ZArith NArith List Bool.
From SCAD Require Import Base.Num Base.NumR Base.Vec Base.Mat Base.Mat_proofs Text.Chars Text.Tree.
Import ListNotations.
Local Open Scope R_scope.

Notation rtree := (scad R text).
Definition M4 := mt4 R.

Definition mat_of_op (o : scadop R text) : option M4 :=
  match o with
  | Translate v => Some (mt4_translate_matrix (p3x v) (p3y v) (p3z v))
  | Scale v => Some (mt4_scale_matrix (p3x v) (p3y v) (p3z v))
  | Rotate None _ v => Some (mt4_mul (mt4_rot_z_matrix (p3z v)) (mt4_mul (mt4_rot_y_matrix (p3y v)) (mt4_rot_x_matrix (p3x v))))
  | Rotate (Some a) true _ => Some (mt4_rot_z_matrix a)
  | Rotate (Some a) false v =>
      let n := pt3_normalized (Pt3 (p3x v) (p3y v) (p3z v)) in Some (mt4_rot_vec (x3 n) (y3 n) (z3 n) a)
  | _ => None
  end.

(* a placed item: the operators above it (with the child position), its accumulated matrix, the node itself *)
Definition ctx := list (scadop R text * nat).
Definition placed := (ctx * M4 * scadop R text)%type.

Fixpoint flatten (m : M4) (c : ctx) (t : rtree) : list placed :=
  match t with
  | Node o cs =>
      match mat_of_op o with
      | Some mo => flat_map (flatten (mt4_mul m mo) c) cs
      | None =>
          match cs with
          | [] => [(c, m, o)]
          | _ => (fix go (l : list rtree) (i : nat) : list placed :=
                    match l with [] => [] | x :: l' => flatten m (c ++ [(o, i)]) x ++ go l' (S i) end) cs 0%nat
          end
      end
  end.

Definition move (a : M4) (p : placed) : placed := let '(c, m, o) := p in (c, mt4_mul a m, o).

(* moving the whole tree by `a` moves every placed item by `a` and changes nothing else *)
Lemma flatten_move a : forall t m c, flatten (mt4_mul a m) c t = map (move a) (flatten m c t).
Proof.
  induction t as [o cs IH] using scad_ind'. intros m c. cbn [flatten].
  destruct (mat_of_op o) as [mo|].
  - rewrite mt4_mul_assoc. induction IH as [|x l Hx Hl IHl]; [reflexivity|].
    cbn [flat_map]. rewrite map_app, Hx, IHl. reflexivity.
  - assert (G : forall i,
        (fix go (l : list rtree) (i : nat) : list placed :=
           match l with [] => [] | x :: l' => flatten (mt4_mul a m) (c ++ [(o, i)]) x ++ go l' (S i) end) cs i =
        map (move a) ((fix go (l : list rtree) (i : nat) : list placed :=
           match l with [] => [] | x :: l' => flatten m (c ++ [(o, i)]) x ++ go l' (S i) end) cs i)).
    { induction IH as [|x l Hx Hl IHl]; intros i; [reflexivity|]. rewrite map_app, Hx. f_equal. apply IHl. }
    destruct cs as [|x0 l0]; [reflexivity|]. apply G.
Qed.

(* a translate node on top of t places everything t places, moved by the translation *)
Theorem translate_on_top (v : p3 R) (t : rtree) :
  flatten mt4_identity [] (Node (Translate v) [t]) =
  map (move (mt4_translate_matrix (p3x v) (p3y v) (p3z v))) (flatten mt4_identity [] t).
Proof.
  cbn [flatten mat_of_op flat_map]. rewrite app_nil_r, mt4_mul_identity_l.
  rewrite <- flatten_move, mt4_mul_identity_r. reflexivity.
Qed.
