(* Parts/Thread_exact_proofs.v -- the thread mesh in its exact form: every directed edge is used by at most one triangle and
   by exactly as many triangles as its reverse, for every number of steps >= 2, both hands. Axiom-free, generic. (C04) *)
From Coq Require Import ZArith List Bool Arith Lia.
From SCAD Require Import Base.Num Base.Vec Geom.Tri Geom.Tri_proofs Geom.Tri_exact Geom.Dim3 Geom.Mesh_proofs Geom.Mesh_exact
  Text.Chars Text.Tree Parts.Thread Parts.Thread_closed_proofs.
From SCAD Require Geom.Cyc.
Import ListNotations.
Local Open Scope Z_scope.

(* ---- shifting an index pattern (counts) ---- *)
Lemma fcnt_shift u v off f : fcnt u v (map (fun k => k + off) f) = fcnt (u - off) (v - off) f.
Proof.
  unfold fcnt. destruct f as [|a l]; [reflexivity|]. cbn [map]. unfold Cyc.csum.
  change (a + off :: map (fun k => k + off) l) with (map (fun k => k + off) (a :: l)).
  rewrite (Mesh_proofs.last_map (fun k => k + off) (a :: l) a). rewrite ind_shift. f_equal.
  generalize (a :: l). intros m. induction m as [|x m IH]; [reflexivity|]. destruct m as [|y m]; [reflexivity|]. cbn [map] in *.
  change (Cyc.osum Z nat 0%nat Nat.add (fun a b => ind a b u v) (x + off :: y + off :: map (fun k => k + off) m))
    with (Nat.add (ind (x + off) (y + off) u v) (Cyc.osum Z nat 0%nat Nat.add (fun a b => ind a b u v) (y + off :: map (fun k => k + off) m))).
  rewrite IH, ind_shift. reflexivity.
Qed.
Lemma mcnt_shift u v off (F : list (list Z)) : mcnt u v (map (map (fun k => k + off)) F) = mcnt (u - off) (v - off) F.
Proof. induction F as [|f F IH]; [reflexivity|]. cbn [map mcnt fold_right]. fold (mcnt u v (map (map (fun k => k + off)) F)) (mcnt (u - off) (v - off) F). rewrite IH, fcnt_shift. reflexivity. Qed.

(* triangles whose indices all lie in [lo, hi) only use directed edges inside that range *)
Lemma mcnt_triples_support u v lo hi : forall (n : nat) (l : list Z), (length l <= n)%nat -> Forall (fun i => lo <= i < hi) l ->
  (1 <= mcnt u v (triples l 0))%nat -> lo <= u < hi /\ lo <= v < hi.
Proof.
  induction n as [|n IH]; intros l Hl HF Hc.
  - destruct l; [cbn in Hc; lia|cbn in Hl; lia].
  - destruct l as [|a [|b [|c tl]]]; try (cbn in Hc; lia).
    cbn [triples mcnt fold_right] in Hc. fold (mcnt u v (triples tl 0)) in Hc. rewrite !Z.add_0_r in Hc.
    inversion HF as [|? ? Ha HF1]; subst. inversion HF1 as [|? ? Hb HF2]; subst. inversion HF2 as [|? ? Hcc HF3]; subst.
    destruct (fcnt u v [a; b; c]) eqn:E; [apply (IH tl); [cbn in Hl; lia|exact HF3|lia]|].
    unfold fcnt, Cyc.csum in E. cbn [Cyc.osum last] in E.
    pose proof (ind_le a b u v). pose proof (ind_le b c u v). pose proof (ind_le c a u v).
    destruct (ind a b u v) eqn:E1; [destruct (ind b c u v) eqn:E2; [destruct (ind c a u v) eqn:E3; [lia|]|]|].
    + assert (X : ind c a u v = 1%nat) by lia. apply ind_1 in X. destruct X as [<- <-]. lia.
    + assert (X : ind b c u v = 1%nat) by lia. apply ind_1 in X. destruct X as [<- <-]. lia.
    + assert (X : ind a b u v = 1%nat) by lia. apply ind_1 in X. destruct X as [<- <-]. lia.
Qed.

(* ---- finite reflection over index patterns inside [0, N) ---- *)
Definition clampN (N u : Z) : Z := if (0 <=? u) && (u <? N) then u else N.
Lemma clampN_range N u : 0 <= N -> 0 <= clampN N u <= N.
Proof. intros HN. unfold clampN. destruct (Z.leb_spec 0 u), (Z.ltb_spec u N); cbn [andb]; lia. Qed.
Lemma ind_clamp N a b u v : 0 <= a < N -> 0 <= b < N -> ind a b u v = ind a b (clampN N u) (clampN N v).
Proof.
  intros Ha Hb. unfold ind, clampN.
  destruct (Z.leb_spec 0 u), (Z.ltb_spec u N), (Z.leb_spec 0 v), (Z.ltb_spec v N); cbn [andb]; try reflexivity;
    repeat match goal with |- context [Z.eqb ?x ?y] => destruct (Z.eqb_spec x y) end; cbn [andb]; try reflexivity; lia.
Qed.
Lemma mcnt_triples_clamp N u v : forall (n : nat) (l : list Z), (length l <= n)%nat -> Forall (fun i => 0 <= i < N) l ->
  mcnt u v (triples l 0) = mcnt (clampN N u) (clampN N v) (triples l 0).
Proof.
  induction n as [|n IH]; intros l Hl HF.
  - destruct l; [reflexivity|cbn in Hl; lia].
  - destruct l as [|a [|b [|c tl]]]; try reflexivity.
    cbn [triples mcnt fold_right]. fold (mcnt u v (triples tl 0)) (mcnt (clampN N u) (clampN N v) (triples tl 0)). rewrite !Z.add_0_r.
    inversion HF as [|? ? Ha HF1]; subst. inversion HF1 as [|? ? Hb HF2]; subst. inversion HF2 as [|? ? Hc HF3]; subst.
    rewrite (IH tl) by (cbn in Hl; lia || exact HF3). f_equal.
    unfold fcnt, Cyc.csum. cbn [Cyc.osum last]. rewrite (ind_clamp N a b u v), (ind_clamp N b c u v), (ind_clamp N c a u v) by lia. reflexivity.
Qed.
Definition zrange (n : nat) : list Z := map Z.of_nat (seq 0 n).
Lemma all_pairs_le (N : nat) (P : Z -> Z -> bool) : forallb (fun a => forallb (P a) (zrange (S N))) (zrange (S N)) = true ->
  forall a b, 0 <= a <= Z.of_nat N -> 0 <= b <= Z.of_nat N -> P a b = true.
Proof.
  intros Hall a b Ha Hb. rewrite forallb_forall in Hall.
  assert (Hin : forall x, 0 <= x <= Z.of_nat N -> In x (zrange (S N))).
  { intros x Hx. unfold zrange. apply in_map_iff. exists (Z.to_nat x). split; [lia|]. apply in_seq. lia. }
  specialize (Hall a (Hin a Ha)). rewrite forallb_forall in Hall. apply Hall. apply Hin. exact Hb.
Qed.

(* the patterns at offset 0: block 0 uses vertices 0..7, block 1 vertices 4..11 *)
Definition blk (left : bool) (s : Z) : list (list Z) := triples (ring_faces left (s * 4)) 0.
Definition startF (left : bool) : list (list Z) := triples (start_faces left) 0.
Definition endF0 (left : bool) : list (list Z) := triples (end_faces0 left) 0.

Lemma ring_faces_range left off : Forall (fun i => off <= i < off + 8) (ring_faces left off).
Proof. unfold ring_faces. rewrite Forall_map. destruct left; repeat constructor; lia. Qed.

(* all finite facts in one table: for every pair (a, b) of clamped indices in 0..12 *)
Definition facts (left : bool) (a b : Z) : bool :=
  let c0 := mcnt a b (blk left 0) in let c1 := mcnt a b (blk left 1) in let cs := mcnt a b (startF left) in let ce := mcnt a b (endF0 left) in
  (c0 <=? 1)%nat && (cs <=? 1)%nat && (ce <=? 1)%nat &&
  negb ((1 <=? c0)%nat && (1 <=? c1)%nat) && negb ((1 <=? cs)%nat && (1 <=? c0)%nat) && negb ((1 <=? c0)%nat && (1 <=? ce)%nat).
Lemma facts_table left : forallb (fun a => forallb (facts left a) (zrange 13)) (zrange 13) = true.
Proof. destruct left; vm_compute; reflexivity. Qed.

Lemma facts_all left u v :
  let c0 := mcnt u v (blk left 0) in let c1 := mcnt u v (blk left 1) in let cs := mcnt u v (startF left) in let ce := mcnt u v (endF0 left) in
  (c0 <= 1)%nat /\ (cs <= 1)%nat /\ (ce <= 1)%nat /\ ~ (1 <= c0 /\ 1 <= c1)%nat /\ ~ (1 <= cs /\ 1 <= c0)%nat /\ ~ (1 <= c0 /\ 1 <= ce)%nat.
Proof.
  cbv zeta.
  assert (R0 : Forall (fun i => 0 <= i < 12) (ring_faces left (0 * 4))) by (eapply Forall_impl; [|apply ring_faces_range]; cbv beta; intros; lia).
  assert (R1 : Forall (fun i => 0 <= i < 12) (ring_faces left (1 * 4))) by (eapply Forall_impl; [|apply ring_faces_range]; cbv beta; intros; lia).
  assert (Rs : Forall (fun i => 0 <= i < 12) (start_faces left)) by (destruct left; repeat constructor; lia).
  assert (Re : Forall (fun i => 0 <= i < 12) (end_faces0 left)) by (destruct left; repeat constructor; lia).
  unfold blk, startF, endF0.
  rewrite (mcnt_triples_clamp 12 u v _ (ring_faces left (0 * 4)) (le_n _) R0), (mcnt_triples_clamp 12 u v _ (ring_faces left (1 * 4)) (le_n _) R1),
          (mcnt_triples_clamp 12 u v _ (start_faces left) (le_n _) Rs), (mcnt_triples_clamp 12 u v _ (end_faces0 left) (le_n _) Re).
  pose proof (clampN_range 12 u ltac:(lia)) as Hu. pose proof (clampN_range 12 v ltac:(lia)) as Hv.
  pose proof (all_pairs_le 12 (facts left) (facts_table left) (clampN 12 u) (clampN 12 v) Hu Hv) as Hf.
  unfold facts, blk, startF, endF0 in Hf. cbv zeta in Hf.
  repeat (apply andb_prop in Hf; destruct Hf as [Hf ?]).
  repeat match goal with H : negb _ = true |- _ => apply negb_true_iff in H; apply andb_false_iff in H end.
  repeat match goal with H : (_ <=? _)%nat = true |- _ => apply Nat.leb_le in H end.
  repeat split; try assumption; intros [X Y]; apply Nat.leb_le in X; apply Nat.leb_le in Y;
    match goal with H : _ = false \/ _ = false |- _ => destruct H as [H|H]; congruence end.
Qed.

(* ---- blocks at other offsets ---- *)
Lemma blk_shift left s t : blk left (s + t) = map (map (fun k => k + s * 4)) (blk left t).
Proof.
  unfold blk. rewrite (ring_faces_shift left ((s + t) * 4)), (ring_faces_shift left (t * 4)).
  rewrite <- triples_shift. f_equal. rewrite map_map. apply map_ext. intros k. lia.
Qed.
Lemma blk_cnt left s t u v : mcnt u v (blk left (s + t)) = mcnt (u - s * 4) (v - s * 4) (blk left t).
Proof. rewrite blk_shift. apply mcnt_shift. Qed.
Lemma blk_support left s u v : (1 <= mcnt u v (blk left s))%nat -> s * 4 <= u < s * 4 + 8 /\ s * 4 <= v < s * 4 + 8.
Proof. unfold blk. apply (mcnt_triples_support u v (s * 4) (s * 4 + 8) _ (ring_faces left (s * 4)) (le_n _)). apply ring_faces_range. Qed.
Lemma start_support left u v : (1 <= mcnt u v (startF left))%nat -> 0 <= u < 4 /\ 0 <= v < 4.
Proof. unfold startF. apply (mcnt_triples_support u v 0 4 _ (start_faces left) (le_n _)). destruct left; repeat constructor; lia. Qed.
Definition endF (left : bool) (off : Z) : list (list Z) := triples (map (fun k => k + off) (end_faces0 left)) 0.
Lemma endF_cnt left off u v : mcnt u v (endF left off) = mcnt (u - off) (v - off) (endF0 left).
Proof. unfold endF, endF0. rewrite triples_shift. apply mcnt_shift. Qed.
Lemma end_support left off u v : (1 <= mcnt u v (endF left off))%nat -> off + 4 <= u < off + 8 /\ off + 4 <= v < off + 8.
Proof.
  unfold endF. apply (mcnt_triples_support u v (off + 4) (off + 8) _ _ (le_n _)). rewrite Forall_map. destruct left; repeat constructor; lia.
Qed.

(* the blocks 0 .. m-1 together use every directed edge at most once *)
Lemma blocks_cnt left u v (m : nat) :
  let c := mcnt u v (flat_map (fun s => blk left s) (nseq m)) in
  (c <= 1)%nat /\ ((1 <= c)%nat -> exists s, 0 <= s < Z.of_nat m /\ (1 <= mcnt u v (blk left s))%nat).
Proof.
  induction m as [|m IH]; cbv zeta.
  - cbn. split; [lia|intros; lia].
  - unfold nseq in *. rewrite seq_S, map_app, flat_map_app, mcnt_app. cbn [map flat_map Nat.add]. rewrite app_nil_r.
    cbv zeta in IH. destruct IH as [IH1 IH2].
    set (c := mcnt u v (flat_map (fun s => blk left s) (map Z.of_nat (seq 0 m)))) in *. set (cm := mcnt u v (blk left (Z.of_nat m))).
    assert (Hcm : (cm <= 1)%nat).
    { unfold cm. replace (Z.of_nat m) with (Z.of_nat m + 0) by lia. rewrite blk_cnt. apply (facts_all left (u - Z.of_nat m * 4) (v - Z.of_nat m * 4)). }
    assert (Hex : (1 <= c)%nat -> (1 <= cm)%nat -> False).
    { intros G1 G2. destruct (IH2 G1) as [s [Hs Cs]]. destruct (blk_support left s u v Cs) as [Su Sv]. destruct (blk_support left (Z.of_nat m) u v G2) as [Mu Mv].
      assert (s = Z.of_nat m - 1) by lia. subst s.
      destruct (facts_all left (u - (Z.of_nat m - 1) * 4) (v - (Z.of_nat m - 1) * 4)) as (_ & _ & _ & F & _). apply F. split.
      - replace (Z.of_nat m - 1) with (Z.of_nat m - 1 + 0) in Cs by lia. rewrite blk_cnt in Cs. exact Cs.
      - unfold cm in G2. replace (Z.of_nat m) with (Z.of_nat m - 1 + 1) in G2 at 1 by lia. rewrite blk_cnt in G2. exact G2. }
    split; [destruct c as [|[|c']]; destruct cm as [|[|cm']]; lia|].
    intros Hc. destruct (Nat.eq_dec c 0) as [E|E].
    + exists (Z.of_nat m). split; [lia|]. fold cm. lia.
    + destruct (IH2 ltac:(lia)) as [s [Hs Cs]]. exists s. split; [lia|exact Cs].
Qed.

(* THE THREAD MESH, EXACT FORM *)
Theorem thread_mesh_exact {T : Type} `{Num T} (d_min d_maj pitch length : T) (segments : Z) (li lo : T) (left : bool) :
  2 <= mesh_steps d_min d_maj pitch length segments ->
  closed_exact (triples (snd (thread_mesh d_min d_maj pitch length segments li lo left)) 0).
Proof.
  intros Hns. assert (Hnet : closed_net (triples (snd (thread_mesh d_min d_maj pitch length segments li lo left)) 0)) by (apply thread_mesh_closed; lia).
  intros u v. split; [|specialize (Hnet u v); rewrite mnet_cnt in Hnet; lia].
  rewrite thread_mesh_indices. cbv zeta. set (ns := mesh_steps d_min d_maj pitch length segments) in *.
  set (m := Z.to_nat (ns - 1)). assert (Hm : Z.of_nat m = ns - 1) by (unfold m; lia).
  rewrite triples_app3 by (exists 2%nat; destruct left; reflexivity).
  rewrite triples_app3 by (exists (8 * m)%nat; rewrite blocks_length; unfold nseq; rewrite map_length, seq_length; lia).
  rewrite !mcnt_app. fold (startF left). fold (endF left ((ns - 2) * 4)).
  assert (Eblocks : triples (flat_map (fun s => ring_faces left (s * 4)) (nseq m)) 0 = flat_map (fun s => blk left s) (nseq m)).
  { unfold nseq. generalize (seq 0 m). intros l. induction l as [|s l IH]; [reflexivity|]. cbn [map flat_map].
    rewrite triples_app3 by (exists 8%nat; apply ring_faces_length). rewrite IH. reflexivity. }
  rewrite Eblocks.
  destruct (blocks_cnt left u v m) as [Hb1 Hb2]. cbv zeta in Hb1, Hb2.
  set (cs := mcnt u v (startF left)). set (cb := mcnt u v (flat_map (fun s => blk left s) (nseq m))) in *. set (ce := mcnt u v (endF left ((ns - 2) * 4))).
  assert (Hcs : (cs <= 1)%nat) by (apply (facts_all left u v)).
  assert (Hce : (ce <= 1)%nat) by (unfold ce; rewrite endF_cnt; apply (facts_all left (u - (ns - 2) * 4) (v - (ns - 2) * 4))).
  assert (X1 : (1 <= cs)%nat -> (1 <= cb)%nat -> False).
  { intros G1 G2. destruct (start_support left u v G1) as [Su Sv]. destruct (Hb2 G2) as [s [Hs Cs]]. destruct (blk_support left s u v Cs) as [Bu Bv].
    assert (s = 0) by lia. subst s. destruct (facts_all left u v) as (_ & _ & _ & _ & F & _). apply F. split; [exact G1|exact Cs]. }
  assert (X2 : (1 <= cb)%nat -> (1 <= ce)%nat -> False).
  { intros G1 G2. destruct (end_support left _ u v G2) as [Eu Ev]. destruct (Hb2 G1) as [s [Hs Cs]]. destruct (blk_support left s u v Cs) as [Bu Bv].
    assert (s = ns - 2) by lia. subst s.
    destruct (facts_all left (u - (ns - 2) * 4) (v - (ns - 2) * 4)) as (_ & _ & _ & _ & _ & F). apply F. split.
    - replace (ns - 2) with (ns - 2 + 0) in Cs at 1 by lia. rewrite blk_cnt in Cs. exact Cs.
    - unfold ce in G2. rewrite endF_cnt in G2. exact G2. }
  assert (X3 : (1 <= cs)%nat -> (1 <= ce)%nat -> False).
  { intros G1 G2. destruct (start_support left u v G1) as [Su Sv]. destruct (end_support left _ u v G2) as [Eu Ev]. lia. }
  destruct cs as [|[|cs']]; destruct cb as [|[|cb']]; destruct ce as [|[|ce']]; lia.
Qed.
