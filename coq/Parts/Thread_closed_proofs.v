(* Parts/Thread_closed_proofs.v -- the thread mesh has no boundary: the two start triangles, eight triangles per step
   and the two end triangles cancel ring by ring, for every number of steps, both hands. Axiom-free, generic in the
   number type (C04). *)
From Coq Require Import ZArith List Bool Arith Lia.
From SCAD Require Import Base.Num Base.Vec Geom.Tri Geom.Tri_proofs Geom.Dim3 Geom.Mesh_proofs Text.Chars Text.Tree Parts.Thread.
From SCAD Require Geom.Cyc.
Import ListNotations.
Local Open Scope Z_scope.

(* ---- finite reflection: identities between net counts of index patterns inside 0..7 ---- *)
Definition clamp8 (u : Z) : Z := if (0 <=? u) && (u <? 8) then u else 8.
Definition dirzc (u v a b : Z) : Z := dirz (clamp8 u) (clamp8 v) a b.
Lemma dirz_dirzc u v a b : 0 <= a < 8 -> 0 <= b < 8 -> dirz u v a b = dirzc u v a b.
Proof.
  intros Ha Hb. unfold dirzc, dirz, clamp8.
  destruct (Z.leb_spec 0 u), (Z.ltb_spec u 8), (Z.leb_spec 0 v), (Z.ltb_spec v 8); cbn [andb]; try reflexivity;
    repeat match goal with |- context [Z.eqb ?x ?y] => destruct (Z.eqb_spec x y) end; cbn [andb]; try reflexivity; lia.
Qed.
Lemma clamp8_range u : 0 <= clamp8 u <= 8.
Proof. unfold clamp8. destruct (Z.leb_spec 0 u), (Z.ltb_spec u 8); cbn [andb]; lia. Qed.

(* the section ring in cyclic order: minor-top, major-top, major-bottom, minor-bottom *)
Definition sec (o : Z) : list Z := [o; o + 1; o + 3; o + 2].
Definition sgn (left : bool) : Z := if left then -1 else 1.

Definition range9 : list Z := [0; 1; 2; 3; 4; 5; 6; 7; 8].
Lemma all_pairs (P : Z -> Z -> bool) : forallb (fun a => forallb (P a) range9) range9 = true ->
  forall a b, 0 <= a <= 8 -> 0 <= b <= 8 -> P a b = true.
Proof.
  intros Hall a b Ha Hb. rewrite forallb_forall in Hall.
  assert (Hin : forall x, 0 <= x <= 8 -> In x range9) by (intros x Hx; unfold range9; cbn; lia).
  specialize (Hall a (Hin a Ha)). rewrite forallb_forall in Hall. apply Hall. apply Hin. exact Hb.
Qed.

Lemma block_net0 (left : bool) u v :
  mnet u v (triples (ring_faces left 0) 0) = sgn left * (fnet u v (sec 4) - fnet u v (sec 0)).
Proof.
  unfold mnet, fnet, sec, ring_faces, Cyc.csum. destruct left; cbn [map triples zsum fold_right Cyc.osum last Z.add sgn];
    rewrite !dirz_dirzc by lia; unfold dirzc; pose proof (clamp8_range u) as Hu; pose proof (clamp8_range v) as Hv;
    generalize dependent (clamp8 u); generalize dependent (clamp8 v); intros b Hb a Ha;
    assert (Ia : a = 0 \/ a = 1 \/ a = 2 \/ a = 3 \/ a = 4 \/ a = 5 \/ a = 6 \/ a = 7 \/ a = 8) by lia;
    assert (Ib : b = 0 \/ b = 1 \/ b = 2 \/ b = 3 \/ b = 4 \/ b = 5 \/ b = 6 \/ b = 7 \/ b = 8) by lia;
    clear Ha Hb;
    destruct Ia as [->|[->|[->|[->|[->|[->|[->|[->| ->]]]]]]]]; destruct Ib as [->|[->|[->|[->|[->|[->|[->|[->| ->]]]]]]]]; vm_compute; reflexivity.
Qed.

Definition start_faces (left : bool) : list Z := if left then [2; 1; 0; 3; 1; 2] else [0; 1; 2; 2; 1; 3].
Definition end_faces0 (left : bool) : list Z := if left then [5; 7; 6; 4; 5; 6] else [6; 7; 5; 6; 5; 4].
Lemma start_net (left : bool) u v : mnet u v (triples (start_faces left) 0) = sgn left * fnet u v (sec 0).
Proof.
  unfold mnet, fnet, sec, start_faces, Cyc.csum. destruct left; cbn [map triples zsum fold_right Cyc.osum last Z.add sgn];
    rewrite !dirz_dirzc by lia; unfold dirzc; pose proof (clamp8_range u) as Hu; pose proof (clamp8_range v) as Hv;
    generalize dependent (clamp8 u); generalize dependent (clamp8 v); intros b Hb a Ha;
    assert (Ia : a = 0 \/ a = 1 \/ a = 2 \/ a = 3 \/ a = 4 \/ a = 5 \/ a = 6 \/ a = 7 \/ a = 8) by lia;
    assert (Ib : b = 0 \/ b = 1 \/ b = 2 \/ b = 3 \/ b = 4 \/ b = 5 \/ b = 6 \/ b = 7 \/ b = 8) by lia;
    clear Ha Hb;
    destruct Ia as [->|[->|[->|[->|[->|[->|[->|[->| ->]]]]]]]]; destruct Ib as [->|[->|[->|[->|[->|[->|[->|[->| ->]]]]]]]]; vm_compute; reflexivity.
Qed.
Lemma end_net0 (left : bool) u v : mnet u v (triples (end_faces0 left) 0) = - sgn left * fnet u v (sec 4).
Proof.
  unfold mnet, fnet, sec, end_faces0, Cyc.csum. destruct left; cbn [map triples zsum fold_right Cyc.osum last Z.add sgn];
    rewrite !dirz_dirzc by lia; unfold dirzc; pose proof (clamp8_range u) as Hu; pose proof (clamp8_range v) as Hv;
    generalize dependent (clamp8 u); generalize dependent (clamp8 v); intros b Hb a Ha;
    assert (Ia : a = 0 \/ a = 1 \/ a = 2 \/ a = 3 \/ a = 4 \/ a = 5 \/ a = 6 \/ a = 7 \/ a = 8) by lia;
    assert (Ib : b = 0 \/ b = 1 \/ b = 2 \/ b = 3 \/ b = 4 \/ b = 5 \/ b = 6 \/ b = 7 \/ b = 8) by lia;
    clear Ha Hb;
    destruct Ia as [->|[->|[->|[->|[->|[->|[->|[->| ->]]]]]]]]; destruct Ib as [->|[->|[->|[->|[->|[->|[->|[->| ->]]]]]]]]; vm_compute; reflexivity.
Qed.

(* ---- shifting an index pattern ---- *)
Lemma triples_shift (l : list Z) off : triples (map (fun k => k + off) l) 0 = map (map (fun k => k + off)) (triples l 0).
Proof.
  assert (G : forall n l, (length l <= n)%nat -> triples (map (fun k => k + off) l) 0 = map (map (fun k => k + off)) (triples l 0)).
  { induction n as [|n IH]; intros l' Hl.
    - destruct l'; [reflexivity|cbn in Hl; lia].
    - destruct l' as [|a [|b [|c tl]]]; try reflexivity. cbn [map triples]. rewrite IH by (cbn in Hl; lia). rewrite !Z.add_0_r. reflexivity. }
  apply (G (length l)). lia.
Qed.
Lemma mnet_shift u v off (F : list (list Z)) : mnet u v (map (map (fun k => k + off)) F) = mnet (u - off) (v - off) F.
Proof.
  unfold mnet. rewrite map_map. f_equal. apply map_ext. intros f. symmetry. apply fnet_shift.
Qed.
Lemma sec_shift o off : map (fun k => k + off) (sec o) = sec (o + off).
Proof.
  unfold sec. cbn [map]. replace (o + 1 + off) with (o + off + 1) by lia. replace (o + 3 + off) with (o + off + 3) by lia.
  replace (o + 2 + off) with (o + off + 2) by lia. reflexivity.
Qed.
Lemma ring_faces_shift left off : ring_faces left off = map (fun k => k + off) (ring_faces left 0).
Proof. unfold ring_faces. rewrite map_map. apply map_ext. intros k. lia. Qed.

Lemma block_net (left : bool) off u v :
  mnet u v (triples (ring_faces left off) 0) = sgn left * (fnet u v (sec (off + 4)) - fnet u v (sec off)).
Proof.
  rewrite ring_faces_shift, triples_shift, mnet_shift, block_net0. rewrite !fnet_shift, !sec_shift. rewrite Z.add_0_l. replace (4 + off) with (off + 4) by lia. reflexivity.
Qed.
Lemma end_net (left : bool) off u v :
  mnet u v (triples (map (fun k => k + off) (end_faces0 left)) 0) = - sgn left * fnet u v (sec (off + 4)).
Proof. rewrite triples_shift, mnet_shift, end_net0. rewrite fnet_shift, sec_shift. replace (4 + off) with (off + 4) by lia. reflexivity. Qed.

(* triples of a concatenation of whole triangles *)
Lemma triples_app3 (a : list Z) b off : (exists k, length a = (3 * k)%nat) -> triples (a ++ b) off = triples a off ++ triples b off.
Proof.
  intros [k Hk]. revert a Hk. induction k as [|k IH]; intros a Hk.
  - destruct a; [reflexivity|cbn in Hk; lia].
  - destruct a as [|x [|y [|z tl]]]; try (cbn in Hk; lia). cbn [app triples]. rewrite IH by (cbn in Hk; lia). reflexivity.
Qed.
Lemma ring_faces_length left off : length (ring_faces left off) = 24%nat.
Proof. unfold ring_faces. rewrite map_length. destruct left; reflexivity. Qed.

Lemma blocks_length left (l : list Z) : length (flat_map (fun s => ring_faces left (s * 4)) l) = (24 * length l)%nat.
Proof. induction l as [|a l IH]; [reflexivity|]. cbn [flat_map length]. rewrite app_length, ring_faces_length, IH. lia. Qed.
(* the eight triangles of each of m consecutive steps telescope *)
Lemma blocks_net (left : bool) u v (m : nat) :
  mnet u v (triples (flat_map (fun s => ring_faces left (s * 4)) (nseq m)) 0) = sgn left * (fnet u v (sec (Z.of_nat m * 4)) - fnet u v (sec 0)).
Proof.
  induction m as [|m IH].
  - cbn [nseq seq map flat_map triples]. unfold mnet. cbn [map zsum fold_right Z.of_nat Z.mul]. lia.
  - unfold nseq in *. rewrite seq_S, map_app, flat_map_app. cbn [map flat_map Nat.add]. rewrite app_nil_r.
    rewrite triples_app3.
    + rewrite mnet_app, IH, block_net. replace (Z.of_nat m * 4 + 4) with (Z.of_nat (S m) * 4) by lia. lia.
    + exists (8 * m)%nat. rewrite blocks_length, map_length, seq_length. lia.
Qed.

(* ---- the index list of the mesh ---- *)
Section Idx.
  Context {T : Type} `{Num T}.
  Lemma fold_idx (body : @tstate T -> Z -> @tstate T) (g : Z -> list Z) :
    (forall st s, ts_idx (body st s) = rev (g s) ++ ts_idx st) ->
    forall l st0, ts_idx (fold_left body l st0) = rev (flat_map g l) ++ ts_idx st0.
  Proof.
    intros Hb. induction l as [|s l IH]; intros st0; [reflexivity|]. cbn [fold_left flat_map]. rewrite IH, Hb.
    rewrite rev_app_distr, app_assoc. reflexivity.
  Qed.

  Definition mesh_steps (d_min d_maj pitch length : T) (segments : Z) : Z :=
    ntrunc (ndiv (nsub length (nmul (nlit 7 10) pitch)) pitch * nofZ segments)%num.

  Theorem thread_mesh_indices (d_min d_maj pitch length : T) (segments : Z) (li lo : T) (left : bool) :
    let ns := mesh_steps d_min d_maj pitch length segments in
    snd (thread_mesh d_min d_maj pitch length segments li lo left) =
    start_faces left ++ flat_map (fun s => ring_faces left (s * 4)) (nseq (Z.to_nat (ns - 1))) ++ map (fun k => k + (ns - 2) * 4) (end_faces0 left).
  Proof.
    cbv zeta. unfold thread_mesh. cbv zeta. cbn [snd]. fold (mesh_steps d_min d_maj pitch length segments).
    set (ns := mesh_steps d_min d_maj pitch length segments).
    match goal with |- rev (ts_idx (fold_left ?body ?l ?st0)) ++ ?e = _ =>
      rewrite (fold_idx body (fun s => ring_faces left (s * 4))); [cbn [ts_idx]|] end.
    - rewrite rev_app_distr, !rev_involutive. rewrite <- app_assoc. f_equal. f_equal. unfold end_faces0. destruct left; reflexivity.
    - intros st s. destruct (_ && _); [reflexivity|]. destruct (_ && _); reflexivity.
  Qed.
End Idx.

(* ---- the thread mesh has no boundary ---- *)
Theorem thread_mesh_closed {T : Type} `{Num T} (d_min d_maj pitch length : T) (segments : Z) (li lo : T) (left : bool) :
  1 <= mesh_steps d_min d_maj pitch length segments ->
  closed_net (triples (snd (thread_mesh d_min d_maj pitch length segments li lo left)) 0).
Proof.
  intros Hns u v. rewrite thread_mesh_indices. cbv zeta. set (ns := mesh_steps d_min d_maj pitch length segments) in *.
  set (m := Z.to_nat (ns - 1)).
  rewrite triples_app3 by (exists 2%nat; destruct left; reflexivity).
  rewrite triples_app3 by (exists (8 * m)%nat; rewrite blocks_length; unfold nseq; rewrite map_length, seq_length; lia).
  rewrite !mnet_app, start_net, blocks_net, end_net.
  replace ((ns - 2) * 4 + 4) with (Z.of_nat m * 4) by (unfold m; lia). lia.
Qed.

(* every face index of the thread mesh refers to one of its 4 * steps vertices *)
Lemma thread_mesh_indices_in_range {T : Type} `{Num T} (d_min d_maj pitch length : T) (segments : Z) (li lo : T) (left : bool) :
  let ns := mesh_steps d_min d_maj pitch length segments in 1 <= ns ->
  Forall (fun i => 0 <= i < 4 * ns) (snd (thread_mesh d_min d_maj pitch length segments li lo left)).
Proof.
  cbv zeta. intros Hns. rewrite thread_mesh_indices. cbv zeta. set (ns := mesh_steps d_min d_maj pitch length segments) in *.
  apply Forall_app. split; [|apply Forall_app; split].
  - destruct left; cbn [start_faces]; repeat constructor; lia.
  - rewrite Forall_forall. intros i Hi. apply in_flat_map in Hi. destruct Hi as [s [Hs Hi]]. unfold nseq in Hs. apply in_map_iff in Hs. destruct Hs as [s' [<- Hs]]. apply in_seq in Hs.
    unfold ring_faces in Hi. apply in_map_iff in Hi. destruct Hi as [k [<- Hk]].
    assert (0 <= k <= 7) by (destruct left; cbn [In] in Hk; lia). lia.
  - rewrite Forall_map. destruct left; cbn [end_faces0]; repeat constructor; lia.
Qed.
