mod mathgen;
mod colors;
mod macro_cases;
mod macrotick;
mod partgen;
mod meshgen;
mod polygen;
mod filegen;
mod geomops;
mod mathops;
mod textgen;
mod rnggen;
mod util;
mod viewergen;

fn main() {
    std::panic::set_hook(Box::new(|_| {}));
    let a: Vec<String> = std::env::args().collect();
    let suite = a.get(1).map(|s| s.as_str()).unwrap_or("");
    let seed: u64 = a.get(2).and_then(|s| s.parse().ok()).unwrap_or(1);
    let n: usize = a.get(3).and_then(|s| s.parse().ok()).unwrap_or(100);
    match suite {
        "math" => {
            let lo: i64 = a.get(4).and_then(|s| s.parse().ok()).unwrap_or(0);
            let hi: i64 = a.get(5).and_then(|s| s.parse().ok()).unwrap_or(1000);
            mathgen::emit(seed, n, lo, hi)
        }
        "rng" => {
            let len: usize = a.get(4).and_then(|s| s.parse().ok()).unwrap_or(1300);
            let nraw: usize = a.get(5).and_then(|s| s.parse().ok()).unwrap_or(1500);
            rnggen::emit(seed, n, len, nraw)
        }
        "text" => textgen::emit(seed, n, a.get(4).map(|s| s.as_str()).unwrap_or("")),
        "file" => filegen::emit(seed, n, a.get(4).map(|s| s.as_str()).unwrap_or("/tmp/vh_files"), a.get(5).and_then(|s| s.parse().ok()).unwrap_or(300)),
        "macros" => macrotick::emit(seed, n),
        "geom" => {
            let lo: i64 = a.get(4).and_then(|s| s.parse().ok()).unwrap_or(0);
            let hi: i64 = a.get(5).and_then(|s| s.parse().ok()).unwrap_or(1000);
            geomops::emit(seed, n, lo, hi)
        }
        "geomops" => for o in geomops::OPS { println!("{} {}", o.0, o.1); },
        "tri" => polygen::emit_tri(seed, n, a.get(4).and_then(|s| s.parse().ok()).unwrap_or(40)),
        "mesh" => {
            let lo: i64 = a.get(4).and_then(|s| s.parse().ok()).unwrap_or(400);
            let hi: i64 = a.get(5).and_then(|s| s.parse().ok()).unwrap_or(409);
            meshgen::emit(seed, n, lo, hi, a.get(6).and_then(|s| s.parse().ok()).unwrap_or(16))
        }
        "part" => {
            let lo: i64 = a.get(4).and_then(|s| s.parse().ok()).unwrap_or(500);
            let hi: i64 = a.get(5).and_then(|s| s.parse().ok()).unwrap_or(513);
            partgen::emit(seed, n, lo, hi)
        }
        "partone" => {
            let op: i64 = a[2].parse().unwrap();
            let args: Vec<f64> = a[3..].iter().map(|s| s.parse().unwrap()).collect();
            partgen::emit_one(op, &args)
        }
        "viewer" => viewergen::emit(seed, n, a.get(4).and_then(|s| s.parse().ok()).unwrap_or(6)),
        "lookup" => partgen::emit_lookup(),
        "mathone" => {
            let op: i64 = a[2].parse().unwrap();
            let args: Vec<f64> = a[3..].iter().map(|s| s.parse().unwrap()).collect();
            let r = util::catch(move || mathops::run(op, &args));
            println!("{:?}", r);
        }
        "ops" => for o in mathops::OPS { println!("{} {} {}", o.0, o.1, o.2); },
        _ => { eprintln!("usage: vh <suite> <seed> <n> ..."); std::process::exit(2); }
    }
}
