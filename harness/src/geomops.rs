//! Flat-signature wrappers for dim2.rs profiles and the Bezier curves/chains (C07, C08); numbering shared
//! with coq/Run/GeomOps.v. Integer arguments are passed as floats.
use crate::util::*;
use scad_tree::prelude::*;

fn p2(a: &[f64]) -> Pt2 { Pt2::new(a[0], a[1]) }
fn p3(a: &[f64]) -> Pt3 { Pt3::new(a[0], a[1], a[2]) }
fn ol2(l: &Pt2s) -> Vec<f64> { l.iter().flat_map(|p| [p.x, p.y]).collect() }
fn ol3(l: &Pt3s) -> Vec<f64> { l.iter().flat_map(|p| [p.x, p.y, p.z]).collect() }

pub const OPS: &[(i64, &str)] = &[
    (200, "arc"), (201, "circle"), (202, "inscribed_polygon"), (203, "circumscribed_polygon"), (204, "rounded_rect"),
    (205, "chamfer"), (206, "quadratic_bezier2d"), (207, "cubic_bezier2d"), (208, "star"), (209, "bezier_star"),
    (210, "BezierStar::new.gen_points"), (211, "CubicBezierChain2D history"), (212, "quadratic_bezier3d"), (213, "cubic_bezier3d"),
    (214, "CubicBezierChain3D history"), (215, "QuadraticBezier2D.gen_points"), (216, "CubicBezier2D.gen_points"),
    (217, "QuadraticBezier3D.gen_points"), (218, "CubicBezier3D.gen_points"), (219, "BezierStar::new.chain curves"),
];

pub fn run(op: i64, a: &[f64]) -> Vec<f64> {
    match op {
        200 => ol2(&dim2::arc(p2(a), a[2], a[3] as u64)),
        201 => ol2(&dim2::circle(a[0], a[1] as u64)),
        202 => ol2(&dim2::inscribed_polygon(a[0] as u64, a[1])),
        203 => ol2(&dim2::circumscribed_polygon(a[0] as u64, a[1])),
        204 => ol2(&dim2::rounded_rect(a[0], a[1], a[2], a[3] as u64, a[4] != 0.0)),
        205 => ol2(&dim2::chamfer(a[0], a[1])),
        206 => ol2(&dim2::quadratic_bezier(p2(a), p2(&a[2..]), p2(&a[4..]), a[6] as u64)),
        207 => ol2(&dim2::cubic_bezier(p2(a), p2(&a[2..]), p2(&a[4..]), p2(&a[6..]), a[8] as u64)),
        208 => ol2(&dim2::star(a[0] as usize, a[1], a[2])),
        209 => ol2(&dim2::bezier_star(a[0] as u64, a[1], a[2], a[3], a[4], a[5] as u64)),
        210 => ol2(&BezierStar::new(a[0] as u64, a[1], a[2], a[3], a[4], a[5] as u64).gen_points()),
        211 => {
            // [nadds, closed, first curve: s c1 c2 e seg (9), adds: len c2 e seg (6 each), close: len c2 start_len seg (5)]
            let nadds = a[0] as usize; let closed = a[1] != 0.0;
            let mut ch = CubicBezierChain2D::new(p2(&a[2..]), p2(&a[4..]), p2(&a[6..]), p2(&a[8..]), a[10] as u64);
            let mut k = 11;
            for _ in 0..nadds { ch.add(a[k], p2(&a[k + 1..]), p2(&a[k + 3..]), a[k + 5] as u64); k += 6; }
            if closed { ch.close(a[k], p2(&a[k + 1..]), a[k + 3], a[k + 4] as u64); }
            let mut out = vec![ch.curves.len() as f64];
            for c in ch.curves.iter() { out.extend([c.start.x, c.start.y, c.control1.x, c.control1.y, c.control2.x, c.control2.y, c.end.x, c.end.y, c.segments as f64]); }
            out.extend(ol2(&ch.gen_points()));
            out
        }
        212 => ol3(&dim3::quadratic_bezier(p3(a), p3(&a[3..]), p3(&a[6..]), a[9] as u64)),
        213 => ol3(&dim3::cubic_bezier(p3(a), p3(&a[3..]), p3(&a[6..]), p3(&a[9..]), a[12] as u64)),
        214 => {
            let nadds = a[0] as usize; let closed = a[1] != 0.0;
            let mut ch = CubicBezierChain3D::new(p3(&a[2..]), p3(&a[5..]), p3(&a[8..]), p3(&a[11..]), a[14] as u64);
            let mut k = 15;
            for _ in 0..nadds { ch.add(a[k], p3(&a[k + 1..]), p3(&a[k + 4..]), a[k + 7] as u64); k += 8; }
            if closed { ch.close(a[k], p3(&a[k + 1..]), a[k + 4], a[k + 5] as u64); }
            let mut out = vec![ch.curves.len() as f64];
            for c in ch.curves.iter() { out.extend([c.start.x, c.start.y, c.start.z, c.control1.x, c.control1.y, c.control1.z, c.control2.x, c.control2.y, c.control2.z, c.end.x, c.end.y, c.end.z, c.segments as f64]); }
            out.extend(ol3(&ch.gen_points()));
            out
        }
        215 => ol2(&QuadraticBezier2D::new(p2(a), p2(&a[2..]), p2(&a[4..]), a[6] as u64).gen_points()),
        216 => ol2(&CubicBezier2D::new(p2(a), p2(&a[2..]), p2(&a[4..]), p2(&a[6..]), a[8] as u64).gen_points()),
        217 => ol3(&QuadraticBezier3D::new(p3(a), p3(&a[3..]), p3(&a[6..]), a[9] as u64).gen_points()),
        218 => ol3(&CubicBezier3D::new(p3(a), p3(&a[3..]), p3(&a[6..]), p3(&a[9..]), a[12] as u64).gen_points()),
        219 => {
            let s = BezierStar::new(a[0] as u64, a[1], a[2], a[3], a[4], a[5] as u64);
            let mut out = vec![s.chain.curves.len() as f64];
            for c in s.chain.curves.iter() { out.extend([c.start.x, c.start.y, c.control1.x, c.control1.y, c.control2.x, c.control2.y, c.end.x, c.end.y, c.segments as f64]); }
            out
        }
        _ => panic!("unknown geom op"),
    }
}

fn pos(r: &mut Rng) -> f64 { r.cad().abs() + 1e-3 }
fn segs(r: &mut Rng) -> f64 { match r.below(4) { 0 => *r.pick(&[1.0, 2.0, 3.0, 4.0, 5.0, 6.0, 7.0, 49.0, 93.0]), 1 => r.range(3, 12) as f64, _ => r.range(1, 40) as f64 } }
fn nsides(r: &mut Rng) -> f64 { match r.below(3) { 0 => *r.pick(&[3.0, 4.0, 5.0, 6.0, 7.0, 8.0, 11.0, 13.0]), _ => r.range(3, 40) as f64 } }

/// a point at a short distance from `e` in a generic direction
fn near(r: &mut Rng, e: &[f64]) -> Vec<f64> {
    let len = *r.pick(&[0.003, 0.03, 0.09, 0.3]);
    let dir = r.distinct(e.len()); let n = dir.iter().map(|x| x * x).sum::<f64>().sqrt();
    e.iter().zip(dir.iter()).map(|(a, b)| a + b / n * len).collect()
}
/// one call in four of the free curve functions and structs has control points that coincide exactly (a handle collapsed onto
/// its knot, both handles equal, start = end): shortcuts for "straight" or "degenerate" curves show only there
fn coincide(r: &mut Rng, v: &mut Vec<f64>, dim: usize, npts: usize) {
    if r.below(4) != 0 { return; }
    let cp = |v: &mut Vec<f64>, from: usize, to: usize| { for k in 0..dim { v[to * dim + k] = v[from * dim + k]; } };
    let last = npts - 1;
    match r.below(6) {
        0 => cp(v, 0, 1),                                   // first handle on the start point
        1 => cp(v, last, last - 1),                         // last handle on the end point
        2 => { cp(v, 0, 1); cp(v, last, last - 1); }        // both (for a quadratic: the later copy wins)
        3 => { if npts == 4 { cp(v, 1, 2); } else { cp(v, 0, last); } }
        4 => cp(v, 0, last),                                // closed loop
        _ => { for i in 1..npts { cp(v, 0, i); } }          // a single point
    }
}
pub fn gen_args(r: &mut Rng, op: i64) -> Vec<f64> {
    let mut v = gen_args0(r, op);
    match op { 206 | 215 => coincide(r, &mut v, 2, 3), 207 | 216 => coincide(r, &mut v, 2, 4), 212 | 217 => coincide(r, &mut v, 3, 3), 213 | 218 => coincide(r, &mut v, 3, 4), _ => {} }
    v
}
fn gen_args0(r: &mut Rng, op: i64) -> Vec<f64> {
    let d = |r: &mut Rng, n: usize| r.distinct(n);
    match op {
        200 => { let mut v = d(r, 2); v.push(r.deg(&[-360.0, -270.0, -90.0, -1e-9, 1e-9, 45.0, 90.0, 180.0, 359.999, 360.0, 33.3, 361.0])); v.push(segs(r)); v }
        201 => vec![pos(r), segs(r).max(3.0)],
        202 | 203 => vec![nsides(r), pos(r)],
        204 => { let w = pos(r) + 1.0; let h = pos(r) + 1.0; let m = w.min(h) / 2.0;
                 let rad = match r.below(4) { 0 => m * 1e-6, 1 => m * 0.999999, _ => m * r.uniform(0.01, 0.99) };
                 vec![w, h, rad, segs(r), if r.coin() { 1.0 } else { 0.0 }] }
        205 => vec![pos(r), if r.below(5) == 0 { 0.0 } else { pos(r) }],
        206 | 215 => { let mut v = d(r, 6); v.push(segs(r)); v }
        207 | 216 => { let mut v = d(r, 8); v.push(segs(r)); v }
        208 => vec![r.range(2, 30) as f64, pos(r), pos(r)],
        209 | 210 | 219 => vec![r.range(2, 12) as f64, pos(r), pos(r) * 0.3, pos(r) + 2.0, pos(r) * 0.3, segs(r)],
        211 => {
            let nadds = r.below(7) as usize; let closed = r.coin();
            let mut v = vec![nadds as f64, if closed { 1.0 } else { 0.0 }];
            v.extend(d(r, 8)); v.push(segs(r));
            // one history in three has short end handles (control2 within 0.003 .. 0.3 of the knot): the next curve's
            // first handle must still leave along end - control2
            let short = r.below(3) == 0;
            if short { let e = [v[8], v[9]]; let c = near(r, &e); v[6] = c[0]; v[7] = c[1]; }
            for _ in 0..nadds { v.push(pos(r)); let mut ce = d(r, 4); if short && r.coin() { let c = near(r, &ce[2..4]); ce[0] = c[0]; ce[1] = c[1]; } v.extend(ce); v.push(segs(r)); }
            if closed { v.push(pos(r)); v.extend(d(r, 2)); v.push(pos(r)); v.push(segs(r)); }
            v
        }
        212 | 217 => { let mut v = d(r, 9); v.push(segs(r)); v }
        213 | 218 => { let mut v = d(r, 12); v.push(segs(r)); v }
        214 => {
            let nadds = r.below(6) as usize; let closed = r.coin();
            let mut v = vec![nadds as f64, if closed { 1.0 } else { 0.0 }];
            v.extend(d(r, 12)); v.push(segs(r));
            let short = r.below(3) == 0;
            if short { let e = [v[11], v[12], v[13]]; let c = near(r, &e); v[8] = c[0]; v[9] = c[1]; v[10] = c[2]; }
            for _ in 0..nadds { v.push(pos(r)); let mut ce = d(r, 6); if short && r.coin() { let c = near(r, &ce[3..6]); ce[0] = c[0]; ce[1] = c[1]; ce[2] = c[2]; } v.extend(ce); v.push(segs(r)); }
            if closed { v.push(pos(r)); v.extend(d(r, 3)); v.push(pos(r)); v.push(segs(r)); }
            v
        }
        _ => vec![],
    }
}

pub fn emit(seed: u64, n: usize, lo: i64, hi: i64) {
    let mut r = Rng::new(seed);
    let ops: Vec<i64> = OPS.iter().map(|o| o.0).filter(|o| *o >= lo && *o <= hi).collect();
    let mut count = 0;
    while count < n {
        for op in ops.iter() {
            if count >= n { break; }
            let args = gen_args(&mut r, *op);
            clear_trig();
            let a2 = args.clone(); let o = *op;
            let res = catch(move || run(o, &a2));
            let tt = trig_table();
            let rs = match res { Some(v) => format!("Some {}", fl(&v)), None => "None".to_string() };
            println!("({}, {}, {}, {})", z(o), fl(&args), rs, tt);
            count += 1;
        }
    }
}
