//! Shared helpers: deterministic PRNG, Coq term formatting, float generators.
#![allow(dead_code)]

pub struct Rng(pub u64);
impl Rng {
    pub fn new(seed: u64) -> Self {
        Rng(seed.wrapping_mul(0x9E3779B97F4A7C15).wrapping_add(0xD1B54A32D192ED03))
    }
    pub fn next(&mut self) -> u64 {
        self.0 = self.0.wrapping_add(0x9E3779B97F4A7C15);
        let mut z = self.0;
        z = (z ^ (z >> 30)).wrapping_mul(0xBF58476D1CE4E5B9);
        z = (z ^ (z >> 27)).wrapping_mul(0x94D049BB133111EB);
        z ^ (z >> 31)
    }
    pub fn below(&mut self, n: u64) -> u64 {
        if n == 0 { 0 } else { self.next() % n }
    }
    pub fn range(&mut self, lo: i64, hi: i64) -> i64 {
        lo + self.below((hi - lo + 1) as u64) as i64
    }
    pub fn unit(&mut self) -> f64 {
        (self.next() >> 11) as f64 / (1u64 << 53) as f64
    }
    pub fn uniform(&mut self, lo: f64, hi: f64) -> f64 {
        lo + (hi - lo) * self.unit()
    }
    pub fn coin(&mut self) -> bool {
        self.next() & 1 == 1
    }
    pub fn pick<'a, T>(&mut self, xs: &'a [T]) -> &'a T {
        &xs[self.below(xs.len() as u64) as usize]
    }
    /// "CAD-like" value: a decimal with a few digits, mixed magnitudes, both signs.
    pub fn cad(&mut self) -> f64 {
        let mag = *self.pick(&[0.001, 0.01, 0.1, 1.0, 1.0, 1.0, 10.0, 10.0, 100.0, 1000.0]);
        let digits = self.range(1, 9999) as f64 / *self.pick(&[1.0, 10.0, 100.0, 1000.0]);
        let v = digits * mag;
        if self.coin() { v } else { -v }
    }
    /// distinct non-zero components so a swapped or dropped component is visible
    pub fn distinct(&mut self, n: usize) -> Vec<f64> {
        let mut v: Vec<f64> = Vec::new();
        while v.len() < n {
            let c = self.cad();
            if c != 0.0 && !v.iter().any(|x: &f64| x.abs() == c.abs()) {
                v.push(c);
            }
        }
        v
    }
    /// special stream: zeros, huge, tiny, subnormal, exact integers
    pub fn special(&mut self) -> f64 {
        *self.pick(&[
            0.0, -0.0, 1.0, -1.0, 2.0, 0.5, 1e-300, -1e-300, 1e300, -1e300, 5e-324, f64::MIN_POSITIVE,
            1e21, 0.1 + 0.2, 9007199254740993.0, 1e-7, 3.0, 360.0, 90.0, 180.0, -90.0, 45.0,
        ])
    }
    /// an angle argument: half the time one of the listed (typical) values, otherwise a value right next to one of the
    /// thresholds the builders compare against (0, 90, 180, 360), or an arbitrary one
    pub fn deg(&mut self, base: &[f64]) -> f64 {
        match self.below(4) {
            0 | 1 => *self.pick(base),
            2 => { let t = *self.pick(&[0.0, 90.0, 180.0, 360.0, 360.0]); let d = *self.pick(&[1e-12, 1e-9, 1e-6, 1e-3, 4e-3, 0.05]);
                   let v = if self.coin() { t - d } else { t + d }; if v <= 0.0 && !base.iter().any(|b| *b <= 0.0) { t + d } else { v } }
            _ => { let lo = base.iter().cloned().fold(f64::INFINITY, f64::min); let hi = base.iter().cloned().fold(f64::NEG_INFINITY, f64::max);
                   let v = self.uniform(lo, hi); if v == 0.0 { 1.0 } else { v } }
        }
    }
    pub fn angle(&mut self) -> f64 {
        match self.below(4) {
            0 => *self.pick(&[0.0, 90.0, 180.0, 270.0, 360.0, -90.0, -180.0, 45.0, 30.0, 60.0, 120.0, 450.0, -720.0, 1.0, 359.0]),
            1 => self.range(-720, 720) as f64,
            2 => self.range(-7200, 7200) as f64 / 10.0,
            _ => self.uniform(-400.0, 400.0),
        }
    }
}

/// f64 as a Coq hexadecimal float literal (exact).
pub fn f(x: f64) -> String {
    if x.is_nan() {
        return "nan".to_string();
    }
    if x.is_infinite() {
        return if x > 0.0 { "infinity".to_string() } else { "neg_infinity".to_string() };
    }
    let bits = x.to_bits();
    let neg = bits >> 63 == 1;
    let exp = ((bits >> 52) & 0x7ff) as i64;
    let frac = bits & 0xfffffffffffff;
    let body = if exp == 0 {
        format!("0x0.{:013x}p-1022", frac)
    } else {
        let e = exp - 1023;
        format!("0x1.{:013x}p{}{}", frac, if e < 0 { "-" } else { "+" }, e.abs())
    };
    if neg { format!("(-{})", body) } else { body }
}

pub fn fl(xs: &[f64]) -> String {
    let v: Vec<String> = xs.iter().map(|x| f(*x)).collect();
    format!("[{}]", v.join("; "))
}

pub fn z(i: i64) -> String {
    if i < 0 { format!("({})%Z", i) } else { format!("{}%Z", i) }
}

pub fn zl(xs: &[i64]) -> String {
    let v: Vec<String> = xs.iter().map(|x| z(*x)).collect();
    format!("[{}]", v.join("; "))
}

pub fn b(x: bool) -> &'static str {
    if x { "true" } else { "false" }
}

/// the trig log of the implementation since the last call, deduplicated, as a Coq list
pub fn trig_table() -> String {
    let log = scad_tree::verif::take_trig_log();
    let mut seen = std::collections::HashSet::new();
    let mut out = Vec::new();
    for (id, a, r) in log {
        if seen.insert((id, a)) {
            out.push(format!("({}%Z, {}, {})", id, f(f64::from_bits(a)), f(f64::from_bits(r))));
        }
    }
    format!("[{}]", out.join("; "))
}

pub fn clear_trig() {
    let _ = scad_tree::verif::take_trig_log();
}

/// run a closure, catching panics (None = panicked)
pub fn catch<R>(fun: impl FnOnce() -> R + std::panic::UnwindSafe) -> Option<R> {
    std::panic::catch_unwind(fun).ok()
}
