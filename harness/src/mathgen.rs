//! Case generator for the flat math ops (C09, C10, C11, C12).
use crate::mathops::{run, OPS};
use crate::util::*;

fn gen_matrix(r: &mut Rng) -> Vec<f64> {
    use scad_tree::Mt4;
    let kind = r.below(13);
    let flat = |m: Mt4| -> Vec<f64> {
        let mut v = Vec::new();
        for c in [m.x, m.y, m.z, m.w] { v.extend([c.x, c.y, c.z, c.w]); }
        v
    };
    match kind {
        0 => r.distinct(16),                                    // general projective
        1 => { let mut v = r.distinct(16); v[3] = 0.0; v[7] = 0.0; v[11] = 0.0; v[15] = 1.0; v } // affine
        2 => {                                                  // singular: small ints, row 3 = row0 + row1 (column-major)
            let mut v: Vec<f64> = (0..16).map(|_| r.range(-4, 4) as f64).collect();
            for c in 0..4 { v[c * 4 + 2] = v[c * 4] + v[c * 4 + 1]; }
            v
        }
        3 => (0..16).map(|_| r.range(-3, 3) as f64).collect(),  // small ints: sometimes singular
        4 => { let a = r.angle(); let t = r.distinct(3);
               flat(Mt4::translate_matrix(t[0], t[1], t[2]) * Mt4::rot_z_matrix(a)) }
        5 => { let s = r.distinct(3); let a = r.angle();
               flat(Mt4::rot_x_matrix(a) * Mt4::scale_matrix(s[0], s[1], s[2])) }
        6 => vec![0.0; 16],                                      // rank 0
        8 | 9 => {                                               // invertible with a tiny or huge determinant (unit conversions)
            let s = *r.pick(&[1e-6, 1e-5, 1e-4, 1e-3, 1e3, 1e6, 25.4e-6]);
            let (a, b) = (r.angle(), r.angle()); let t = r.distinct(3);
            let k = if kind == 8 { (s, s, s) } else { (s, s * 0.1, s * 10.0) };
            flat(Mt4::translate_matrix(t[0], t[1], t[2]) * Mt4::rot_z_matrix(a) * Mt4::rot_x_matrix(b) * Mt4::scale_matrix(k.0, k.1, k.2)) }
        10 => flat(Mt4::identity()),
        11 => {                                                  // affine part plus a perspective row of small integers (projective, exact entries)
            let mut v = r.distinct(16); v[3] = r.range(-2, 2) as f64; v[7] = r.range(-2, 2) as f64; v[11] = r.range(-2, 2) as f64; v[15] = *r.pick(&[0.0, 1.0, 1.0, 2.0]); v }
        12 => { let d = r.distinct(16); (0..16).map(|i| if r.coin() { d[i] } else { *r.pick(&[0.0, 0.0, 1.0, -1.0]) }).collect() } // sparse, exact entries
        _ => { let mut v = vec![0.0; 16]; let d = r.distinct(4); v[0] = d[0]; v[5] = d[1]; v[10] = d[2]; v[15] = d[3]; v }
    }
}

pub fn gen_args(r: &mut Rng, sig: &str, special: bool) -> Vec<f64> { gen_args_mode(r, sig, special, false, false) }
/// tiny = every vector argument scaled far down as a whole (one round in five)
/// rep = every list has at least three points, one repeated right after itself and one repeated further on (one round in five)
pub fn gen_args_mode(r: &mut Rng, sig: &str, special: bool, tiny: bool, rep: bool) -> Vec<f64> {
    let mut out = Vec::new();
    let cs: Vec<char> = sig.chars().collect();
    let mut k = 0;
    while k < cs.len() {
        let c = cs[k];
        match c {
            '2' | '3' | '4' => {
                let n = c.to_digit(10).unwrap() as usize;
                if special { for _ in 0..n { out.push(r.special()); } }
                else {
                    // every 8th vector is scaled far down as a whole (lengths below f64::EPSILON, squares that underflow
                    // towards subnormals): guards of the form `len < eps` on normalisation show only there
                    let d = r.distinct(n);
                    // (1e-20 and below: the length is under EPSILON whatever the digits; 1e-150 and below: the squares underflow)
                    if tiny || r.below(8) == 0 { let sc = *r.pick(&[1e-8, 1e-12, 1e-17, 1e-20, 1e-20, 1e-25, 1e-150, 1e-160]); out.extend(d.iter().map(|v| v * sc)); }
                    else {
                        // one vector in four carries exact 0 / 1 / -1 coordinates (axis-aligned vectors, directions with w = 0 and
                        // points with w = 1): shortcuts keyed on an exact component show only there
                        let mut d = d;
                        if r.below(4) == 0 {
                            if n == 4 { d[3] = *r.pick(&[0.0, 1.0, 0.0, 1.0, -1.0]); }
                            let k = r.below(n as u64 + 1) as usize;
                            for _ in 0..k { let i = r.below(n as u64) as usize; if !(n == 4 && i == 3) { d[i] = *r.pick(&[0.0, 0.0, 1.0, -1.0]); } }
                        }
                        out.extend(d);
                    }
                }
            }
            's' => { let v = if special { r.special() } else { r.cad() }; out.push(v); }
            'i' => {
                // mostly in range, sometimes just outside (panic path)
                let hi = match cs[k - 1] { '2' => 2, '3' => 3, '4' => 4, _ => 16 };
                let i = if r.below(6) == 0 { hi + r.below(3) as i64 } else { r.below(hi as u64) as i64 };
                out.push(i as f64);
            }
            'a' => out.push(if special { r.special() } else { r.angle() }),
            'r' => out.push(match r.below(6) {
                0 => *r.pick(&[-1.0, 1.0, 0.0, 0.5, -0.5]),
                // right next to the ends of the domain and to zero: 1 - 10^-k, 10^-k
                1 => { let e = 10f64.powi(-(r.range(1, 16) as i32)); let v = if r.coin() { 1.0 - e } else { e }; if r.coin() { v } else { -v } }
                _ => r.uniform(-1.0, 1.0) }),
            'm' => out.extend(gen_matrix(r)),
            'u' => {
                let v = match r.below(9) {
                    0 => vec![1.0, 0.0, 0.0], 1 => vec![0.0, 1.0, 0.0], 2 => vec![0.0, 0.0, 1.0],
                    3 => vec![-1.0, 0.0, 0.0], 4 => vec![0.0, -1.0, 0.0], 5 => vec![0.0, 0.0, -1.0],
                    6 => { let d = r.distinct(2); let l = (d[0]*d[0]+d[1]*d[1]).sqrt(); let mut v = vec![d[0]/l, d[1]/l]; v.insert(r.below(3) as usize, 0.0); v }
                    _ => { let d = r.distinct(3); let l = (d[0]*d[0]+d[1]*d[1]+d[2]*d[2]).sqrt(); vec![d[0]/l, d[1]/l, d[2]/l] }
                };
                out.extend(v);
            }
            'L' => {
                let n = cs[k + 1].to_digit(10).unwrap() as usize;
                k += 1;
                let len = if rep { r.range(4, 9) as usize } else { match r.below(6) { 0 => 0, 1 => 1, _ => r.range(2, 9) as usize } };
                // one list in three repeats points (next to each other and apart): list wrappers must convert every element
                let repeats = rep || r.below(3) == 0;
                let mut prev: Vec<Vec<f64>> = Vec::new();
                for k in 0..len {
                    let p = if rep && k == 1 { prev[0].clone() }                       // right after itself
                            else if rep && k == len - 1 { prev[r.below(2) as usize + 1].clone() } // further on (a copy of point 1 or 2)
                            else if repeats && !prev.is_empty() && r.coin() { if r.coin() { prev[prev.len() - 1].clone() } else { prev[r.below(prev.len() as u64) as usize].clone() } } else { r.distinct(n) };
                    out.extend(p.iter()); prev.push(p);
                }
            }
            _ => panic!("bad sig"),
        }
        k += 1;
    }
    out
}

/// look_at needs eye != center and up not parallel: build structured triples
fn gen_lookat(r: &mut Rng) -> Vec<f64> {
    let eye = r.distinct(3);
    let dir: Vec<f64> = match r.below(8) {
        0 => vec![0.0, 0.0, 1.0], 1 => vec![0.0, 0.0, -1.0], 2 => vec![*r.pick(&[1.0, -1.0]), 0.0, 0.0], 3 => vec![0.0, *r.pick(&[1.0, -1.0]), 0.0],
        4 => vec![1e-9, 0.0, 1.0],
        _ => r.distinct(3),
    };
    let k = r.uniform(0.1, 20.0);
    let center: Vec<f64> = (0..3).map(|i| eye[i] + dir[i] * k).collect();
    let mut v = eye; v.extend(center); v.extend([0.0, 0.0, 1.0]);
    if r.below(4) == 0 {
        // general up (not parallel with overwhelming probability)
        let up = r.distinct(3); v[6] = up[0]; v[7] = up[1]; v[8] = up[2];
    }
    v
}

/// approx_eq(a, b, eps): equal arguments, a distance of exactly eps, and zero / negative / tiny tolerances are the cases that
/// tell `|a - b| < eps` from its neighbours (`<=`, a short-cut for a == b, a relative test)
fn gen_approx(r: &mut Rng) -> Vec<f64> {
    let a = match r.below(4) { 0 => r.special(), _ => r.cad() };
    let eps = match r.below(6) { 0 => 0.0, 1 => *r.pick(&[-0.0, -1.0, -1e-9, f64::MIN_POSITIVE, 5e-324]), 2 => *r.pick(&[1e-12, 1e-9, 1e-6, 1e-3]), _ => r.cad().abs() };
    let b = match r.below(6) {
        0 | 1 => a,                                                        // identical
        2 => a + eps,                                                      // at (or, after rounding, next to) the boundary
        3 => a - eps,
        4 => a + eps * *r.pick(&[0.5, 0.999, 1.001, 2.0]),
        _ => r.cad(),
    };
    vec![a, b, eps]
}

pub fn emit(seed: u64, n: usize, lo: i64, hi: i64) {
    let mut r = Rng::new(seed);
    let ops: Vec<&(i64, &str, &str)> = OPS.iter().filter(|o| o.0 >= lo && o.0 <= hi).collect();
    let mut count = 0usize;
    let mut round = 0usize;
    while count < n {
        for o in ops.iter() {
            if count >= n { break; }
            let special = round % 5 == 4;
            let tiny = round % 5 == 2;
            let rep = round % 5 == 1;
            let args = if o.0 == 109 || o.0 == 116 { gen_lookat(&mut r) } else if o.0 == 146 && !special { gen_approx(&mut r) } else { gen_args_mode(&mut r, o.2, special, tiny, rep) };
            clear_trig();
            let a2 = args.clone();
            let op = o.0;
            let res = catch(move || run(op, &a2));
            let tt = trig_table();
            let rs = match res { Some(v) => format!("Some {}", fl(&v)), None => "None".to_string() };
            println!("({}, {}, {}, {})", z(op), fl(&args), rs, tt);
            count += 1;
        }
        round += 1;
    }
}
