//! Generators of simple polygons (C03/C04/C05): convex, star-shaped, random simple (2-opt untangling),
//! spirals, combs, polygons with straight-angle vertices, library profiles; then winding, cyclic rotation,
//! rigid motion and scale are varied.
use crate::util::*;
use scad_tree::prelude::*;

pub type P = (f64, f64);

fn orient(a: P, b: P, c: P) -> f64 { (b.0 - a.0) * (c.1 - a.1) - (c.0 - a.0) * (b.1 - a.1) }
fn proper_cross(a: P, b: P, c: P, d: P) -> bool {
    let (o1, o2, o3, o4) = (orient(a, b, c), orient(a, b, d), orient(c, d, a), orient(c, d, b));
    ((o1 > 0.0 && o2 < 0.0) || (o1 < 0.0 && o2 > 0.0)) && ((o3 > 0.0 && o4 < 0.0) || (o3 < 0.0 && o4 > 0.0))
}
pub fn area2(p: &[P]) -> f64 { (0..p.len()).map(|i| { let (a, b) = (p[i], p[(i + 1) % p.len()]); a.0 * b.1 - b.0 * a.1 }).sum() }

fn convex(r: &mut Rng, n: usize) -> Vec<P> {
    let mut angs: Vec<f64> = (0..n).map(|_| r.uniform(0.0, 360.0)).collect();
    angs.sort_by(|a, b| a.partial_cmp(b).unwrap()); angs.dedup();
    let (rx, ry) = (r.uniform(1.0, 10.0), r.uniform(1.0, 10.0));
    angs.iter().map(|a| (rx * a.to_radians().cos(), ry * a.to_radians().sin())).collect()
}
fn starshaped(r: &mut Rng, n: usize) -> Vec<P> {
    (0..n).map(|i| { let a = 360.0 * (i as f64 + r.uniform(0.1, 0.9)) / n as f64; let rad = r.uniform(1.0, 10.0);
                     (rad * a.to_radians().cos(), rad * a.to_radians().sin()) }).collect()
}
fn untangled(r: &mut Rng, n: usize) -> Vec<P> {
    let mut p: Vec<P> = (0..n).map(|_| (r.range(-50, 50) as f64 + r.unit() * 0.5, r.range(-50, 50) as f64 + r.unit() * 0.5)).collect();
    for _ in 0..(4 * n * n) {
        let mut changed = false;
        'outer: for i in 0..n { for j in (i + 2)..n {
            if i == 0 && j == n - 1 { continue; }
            if proper_cross(p[i], p[(i + 1) % n], p[j], p[(j + 1) % n]) { p[i + 1..=j].reverse(); changed = true; break 'outer; }
        } }
        if !changed { break; }
    }
    p
}
fn spiral(r: &mut Rng, turns: usize) -> Vec<P> {
    let k = 8; let w = r.uniform(0.2, 0.45);
    let mut outer = Vec::new(); let mut inner = Vec::new();
    for i in 0..=(turns * k) { let a = (360.0 / k as f64 * i as f64).to_radians(); let rad = 1.0 + i as f64 / k as f64;
        outer.push((rad * a.cos(), rad * a.sin())); inner.push(((rad - w) * a.cos(), (rad - w) * a.sin())); }
    inner.reverse(); outer.extend(inner); outer
}
fn comb(r: &mut Rng, teeth: usize) -> Vec<P> {
    let mut p = vec![(0.0, 0.0)]; let h = r.uniform(1.0, 5.0);
    for t in 0..teeth { let x = t as f64 * 2.0; p.push((x + 2.0 - 0.5, 0.0 + 0.0)); let _ = x; }
    p.clear();
    p.push((0.0, -1.0)); p.push((teeth as f64 * 2.0, -1.0));
    for t in (0..teeth).rev() { let x = t as f64 * 2.0; p.push((x + 1.5, 0.0)); p.push((x + 1.5, h)); p.push((x + 0.5, h)); p.push((x + 0.5, 0.0)); }
    p
}
fn with_straight_vertices(r: &mut Rng, base: Vec<P>) -> Vec<P> {
    let mut out = Vec::new();
    for i in 0..base.len() { let (a, b) = (base[i], base[(i + 1) % base.len()]); out.push(a);
        if r.coin() { let t = *r.pick(&[0.25, 0.5, 0.75]); out.push((a.0 + (b.0 - a.0) * t, a.1 + (b.1 - a.1) * t)); } }
    out
}
fn lshape() -> Vec<P> { vec![(0.0, 0.0), (2.0, 0.0), (2.0, 1.0), (1.0, 1.0), (1.0, 2.0), (0.0, 2.0)] }
fn library(r: &mut Rng) -> Vec<P> {
    let pts = match r.below(5) {
        0 => dim2::circle(r.uniform(0.5, 20.0), 4 + r.below(30)),
        1 => dim2::star(2 + r.below(8) as usize, r.uniform(1.0, 3.0), r.uniform(4.0, 9.0)),
        2 => dim2::rounded_rect(10.0, 6.0, r.uniform(0.2, 2.9), 1 + r.below(6), r.coin()),
        3 => dim2::chamfer(r.uniform(2.0, 5.0), r.uniform(0.1, 1.9)),
        _ => dim2::bezier_star(3 + r.below(4), 3.0, 0.8, 7.0, 0.9, 2 + r.below(5)),
    };
    pts.iter().map(|p| (p.x, p.y)).collect()
}

/// a simple polygon, its class name
pub fn base_polygon(r: &mut Rng, max_n: usize) -> (Vec<P>, &'static str) {
    let n = 4 + r.below((max_n - 3) as u64) as usize;
    match r.below(9) {
        0 => (convex(r, n.max(4)), "convex"),
        1 => (starshaped(r, n), "star-shaped"),
        2 | 3 => (untangled(r, n.min(24)), "random-simple"),
        4 => { let t = 1 + r.below(3) as usize; (spiral(r, t), "spiral") }
        5 => { let t = 1 + r.below(5) as usize; (comb(r, t), "comb") }
        6 => { let b = if r.coin() { lshape() } else { convex(r, 5) }; (with_straight_vertices(r, b), "straight-angle-vertices") }
        7 => (lshape(), "L"),
        _ => (library(r), "library-profile"),
    }
}

/// winding, cyclic rotation, rotation, scale, translation
pub fn vary(r: &mut Rng, mut p: Vec<P>) -> (Vec<P>, f64) {
    if p.len() < 4 { p = lshape(); }
    if r.coin() { p.reverse(); }
    let k = r.below(p.len() as u64) as usize; p.rotate_left(k);
    let a = if r.coin() { 0.0 } else { r.uniform(0.0, 360.0).to_radians() };
    let s = *r.pick(&[1e-6, 1e-3, 1e-3, 0.01, 1.0, 1.0, 1.0, 25.4, 1e3, 1e6]);
    let (tx, ty) = if r.coin() { (0.0, 0.0) } else { (r.cad() * s, r.cad() * s) };
    let q = p.iter().map(|&(x, y)| ((x * a.cos() - y * a.sin()) * s + tx, (x * a.sin() + y * a.cos()) * s + ty)).collect();
    (q, s)
}

pub fn to_pt2s(p: &[P]) -> Pt2s { Pt2s::from_pt2s(p.iter().map(|&(x, y)| Pt2::new(x, y)).collect()) }

/// clockwise simple profile for the mesh builders (moderate scale)
/// polygons with straight-angle vertices on an exactly vertical left-most side and on other sides (exact collinearities)
pub fn straight_corpus() -> Vec<Vec<P>> {
    vec![
        vec![(0.0, 0.0), (2.0, 0.0), (2.0, 2.0), (0.0, 2.0), (0.0, 1.0)],
        vec![(0.0, 0.0), (1.0, 0.0), (3.0, 0.0), (3.0, 2.0), (0.0, 2.0), (0.0, 1.5), (0.0, 0.5)],
        vec![(0.0, 0.0), (2.0, 0.0), (2.0, 1.0), (1.0, 1.0), (1.0, 2.0), (0.0, 2.0), (0.0, 1.0)],
        vec![(5.0, 0.0), (7.0, 1.0), (7.0, 3.0), (5.0, 4.0), (5.0, 3.0), (5.0, 1.0)],
    ]
}

pub fn cw_profile(r: &mut Rng, max_n: usize) -> (Vec<P>, &'static str) {
    // one profile in six: a corpus outline with mid-edge vertices, clockwise, from a random cyclic start and at one of three
    // scales, un-rotated (the winding decision of the cap triangulator depends on which vertex comes last)
    if r.below(6) == 0 {
        let c = straight_corpus(); let base = &c[r.below(c.len() as u64) as usize];
        let sc = *r.pick(&[1.0, 1e-3, 25.4]);
        let mut p: Vec<P> = base.iter().map(|q| (q.0 * sc + 0.5 * sc, q.1 * sc)).collect();
        if area2(&p) > 0.0 { p.reverse(); }
        let k = r.below(p.len() as u64) as usize; p.rotate_left(k);
        if p.len() <= max_n.max(7) { return (p, "corpus_straight_vertices"); }
    }
    loop {
        let (p, name) = base_polygon(r, max_n);
        if p.len() < 4 { continue; }
        let mut p = p;
        if area2(&p) > 0.0 { p.reverse(); }
        if area2(&p) < 0.0 { return (p, name); }
    }
}

pub fn emit_tri(seed: u64, n: usize, max_n: usize) {
    let mut r = Rng::new(seed);
    let mut queue: Vec<(Vec<P>, &'static str)> = Vec::new();
    // corpus (runs first): straight-angle vertices on an exactly vertical left-most side and on the other sides, an L bracket with
    // mid-edge vertices, at three scales; every cyclic start and both windings, un-rotated
    let corpus: Vec<Vec<P>> = straight_corpus();
    for base in corpus.iter() { for sc in [1.0, 1e-3, 25.4] {
        let scd: Vec<P> = base.iter().map(|q| (q.0 * sc, q.1 * sc)).collect();
        for w in 0..2 { for k in 0..scd.len() { let mut q = scd.clone(); if w == 1 { q.reverse(); } q.rotate_left(k); queue.push((q, "corpus_straight_vertices")); } }
    } }
    let mut i = 0usize;
    while i < n {
        // small polygons are also run through every cyclic start and both windings, un-rotated (exact collinearities kept)
        let (p, name) = if let Some(q) = queue.pop() { q } else {
            let (base, name) = base_polygon(&mut r, max_n);
            if base.len() <= 12 && r.below(4) == 0 {
                let s = *r.pick(&[1e-3, 1.0, 1.0, 25.4]);
                let sc: Vec<P> = base.iter().map(|q| (q.0 * s, q.1 * s)).collect();
                for w in 0..2 { for k in 0..sc.len() { let mut q = sc.clone(); if w == 1 { q.reverse(); } q.rotate_left(k); queue.push((q, name)); } }
                queue.pop().unwrap()
            } else { let (p, _s) = vary(&mut r, base); (p, name) }
        };
        let op = 300 + ((i + queue.len()) % 4) as i64;
        i += 1;
        let mut args: Vec<f64> = Vec::new();
        if op >= 302 {
            // embed in a random plane: p -> o + x*u + y*v, normal = +-(u x v) (any positive multiple)
            let (u, v, nrm) = random_frame(&mut r);
            let sign = if r.coin() { 1.0 } else { -1.0 };
            let k = sign * if r.coin() { *r.pick(&[1.0, 2.0, 0.5, 4.0]) } else { r.uniform(0.1, 10.0) };
            if i % 173 == 7 { args.extend([f64::NAN, f64::NAN, f64::NAN]); }      // no axis dominates: the wrappers project nothing
            else { args.extend([nrm.0 * k, nrm.1 * k, nrm.2 * k]); }
            let o = if r.coin() { (0.0, 0.0, 0.0) } else { (r.cad(), r.cad(), r.cad()) };
            for &(x, y) in p.iter() { args.extend([o.0 + x * u.0 + y * v.0, o.1 + x * u.1 + y * v.1, o.2 + x * u.2 + y * v.2]); }
        } else {
            for &(x, y) in p.iter() { args.extend([x, y]); }
        }
        let a2 = args.clone();
        let res = catch(move || run(op, &a2));
        let rs = match res { Some(v) => format!("Some {}", fl(&v)), None => "None".to_string() };
        println!("# {} {}", name, p.len());
        println!("({}, {}, {}, [])", z(op), fl(&args), rs);
    }
}

pub fn random_frame(r: &mut Rng) -> ((f64, f64, f64), (f64, f64, f64), (f64, f64, f64)) {
    let axes = [((1.0, 0.0, 0.0), (0.0, 1.0, 0.0), (0.0, 0.0, 1.0)), ((0.0, 1.0, 0.0), (0.0, 0.0, 1.0), (1.0, 0.0, 0.0)), ((0.0, 0.0, 1.0), (1.0, 0.0, 0.0), (0.0, 1.0, 0.0))];
    match r.below(4) {
        0 => return *r.pick(&axes),
        1 => {
            // normals with equal absolute components (axis choice ties): every sign pattern of (a,b,c) in {-1,0,1}^3
            loop {
                let n = ((r.below(3) as f64) - 1.0, (r.below(3) as f64) - 1.0, (r.below(3) as f64) - 1.0);
                let l2 = n.0 * n.0 + n.1 * n.1 + n.2 * n.2;
                if l2 == 0.0 { continue; }
                let h = if n.0 == 0.0 { (1.0, 0.0, 0.0) } else if n.1 == 0.0 { (0.0, 1.0, 0.0) } else if n.2 == 0.0 { (0.0, 0.0, 1.0) } else { (1.0, 0.0, 0.0) };
                let cr = |a: (f64, f64, f64), b: (f64, f64, f64)| (a.1 * b.2 - a.2 * b.1, a.2 * b.0 - a.0 * b.2, a.0 * b.1 - a.1 * b.0);
                let nm = |a: (f64, f64, f64)| { let l = (a.0 * a.0 + a.1 * a.1 + a.2 * a.2).sqrt(); (a.0 / l, a.1 / l, a.2 / l) };
                let u = nm(cr(n, h));
                let v = nm(cr(n, u));
                return (u, v, n);      // the normal is passed exactly as the lattice vector (times the caller's factor)
            }
        }
        _ => {}
    }
    let m = scad_tree::Mt4::rot_z_matrix(r.uniform(0.0, 360.0)) * scad_tree::Mt4::rot_x_matrix(r.uniform(0.0, 360.0)) * scad_tree::Mt4::rot_y_matrix(r.uniform(0.0, 360.0));
    let c = |p: Pt3| (p.x, p.y, p.z);
    (c(m * Pt3::new(1.0, 0.0, 0.0)), c(m * Pt3::new(0.0, 1.0, 0.0)), c(m * Pt3::new(0.0, 0.0, 1.0)))
}

pub fn run(op: i64, a: &[f64]) -> Vec<f64> {
    let l2 = |a: &[f64]| Pt2s::from_pt2s(a.chunks(2).map(|c| Pt2::new(c[0], c[1])).collect());
    let l3 = |a: &[f64]| Pt3s::from_pt3s(a.chunks(3).map(|c| Pt3::new(c[0], c[1], c[2])).collect());
    let out = |i: Indices| i.iter().map(|x| *x as f64).collect::<Vec<f64>>();
    match op {
        300 => out(scad_tree::triangulate2d(&l2(a))),
        301 => out(scad_tree::triangulate2d_rev(&l2(a))),
        302 => out(scad_tree::triangulate3d(&l3(&a[3..]), Pt3::new(a[0], a[1], a[2]))),
        303 => out(scad_tree::triangulate3d_rev(&l3(&a[3..]), Pt3::new(a[0], a[1], a[2]))),
        _ => panic!("unknown tri op"),
    }
}
