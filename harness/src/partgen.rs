//! C14-C18: part builders (threads, bolts, nuts, chamfers, polar arrays, pipes, viewer scenes).
use crate::textgen::{self, tree_term};
use crate::util::*;
use scad_tree::prelude::*;

pub fn sample_tree(k: i64) -> Scad {
    match k {
        0 => { cube!([1.0, 2.0, 3.0]) }
        1 => { translate!([5.0, 0.0, 1.0], sphere!(2.0, fn=12);) }
        _ => { union!(cube!(1.0, true); rotate!([0.0, 0.0, 45.0], square!([2.0, 3.0]););) }
    }
}

pub fn run(op: i64, a: &[f64]) -> Scad {
    let bo = |x: f64| x != 0.0;
    match op {
        500 => metric_thread::threaded_rod(a[0] as i32, a[1], a[2] as u64, a[3], a[4], bo(a[5]), bo(a[6])),
        501 => metric_thread::tap(a[0] as i32, a[1], a[2] as u64, bo(a[3]), bo(a[4])),
        502 => metric_thread::hex_bolt(a[0] as i32, a[1], a[2], a[3] as u64, a[4], bo(a[5]), bo(a[6]), bo(a[7])),
        503 => metric_thread::hex_nut(a[0] as i32, a[1], a[2] as u64, bo(a[3]), bo(a[4]), bo(a[5])),
        504 => Scad::external_cylinder_chamfer(a[0], a[1], a[2], a[3], a[4] as u64, bo(a[5])),
        505 => Scad::external_circle_chamfer(a[0], a[1], a[2], a[3], a[4] as u64),
        506 => Scad::polar_array(&sample_tree(a[0] as i64), a[1] as u64, a[2]),
        507 => Pipe::straight(a[0], a[1], a[2], bo(a[3]), a[4] as u64),
        508 => Pipe::straight_solid(a[0], a[1], bo(a[2]), a[3] as u64),
        509 => Pipe::tapered(a[0], a[1], a[2], a[3], bo(a[4]), a[5] as u64),
        510 => Pipe::tapered_solid(a[0], a[1], a[2], bo(a[3]), a[4] as u64),
        511 => Pipe::curved(a[0], a[1], a[2], a[3], a[4] as u64),
        512 => Pipe::curved_solid(a[0], a[1], a[2], a[3] as u64),
        513 => metric_thread::verif_threaded_cylinder(a[0], a[1], a[2], a[3], a[4] as u64, a[5], a[6], bo(a[7]), bo(a[8])),
        _ => panic!("unknown part op"),
    }
}

/// JSON for the driver's oracles: {"op": name, fields..., "children": [...]}; polyhedra keep points and faces
pub fn tree_json(t: &Scad) -> String {
    let num = |x: f64| format!("{:?}", x);
    let p3 = |p: &Pt3| format!("[{:?},{:?},{:?}]", p.x, p.y, p.z);
    let on = |o: &Option<f64>| match o { Some(v) => format!("{:?}", v), None => "null".into() };
    let ou = |o: &Option<u64>| match o { Some(v) => format!("{}", v), None => "null".into() };
    let head = match &t.op {
        ScadOp::Union => "\"op\":\"union\"".to_string(), ScadOp::Difference => "\"op\":\"difference\"".into(), ScadOp::Intersection => "\"op\":\"intersection\"".into(),
        ScadOp::Hull => "\"op\":\"hull\"".into(),
        ScadOp::Circle { radius, fn_, .. } => format!("\"op\":\"circle\",\"r\":{},\"fn\":{}", num(*radius), ou(fn_)),
        ScadOp::Square { size, center } => format!("\"op\":\"square\",\"size\":[{:?},{:?}],\"center\":{}", size.x, size.y, center),
        ScadOp::Sphere { radius, fn_, .. } => format!("\"op\":\"sphere\",\"r\":{},\"fn\":{}", num(*radius), ou(fn_)),
        ScadOp::Cube { size, center } => format!("\"op\":\"cube\",\"size\":{},\"center\":{}", p3(size), center),
        ScadOp::Cylinder { height, radius1, radius2, center, fn_, .. } => format!("\"op\":\"cylinder\",\"h\":{},\"r1\":{},\"r2\":{},\"center\":{},\"fn\":{}", num(*height), num(*radius1), num(*radius2), center, ou(fn_)),
        ScadOp::Polygon { points, .. } => format!("\"op\":\"polygon\",\"points\":[{}]", points.iter().map(|p| format!("[{:?},{:?}]", p.x, p.y)).collect::<Vec<_>>().join(",")),
        ScadOp::Polyhedron { points, faces, convexity } => format!("\"op\":\"polyhedron\",\"convexity\":{},\"points\":[{}],\"faces\":[{}]", convexity,
            points.iter().map(|p| p3(p)).collect::<Vec<_>>().join(","),
            faces.iter().map(|f| format!("[{}]", f.iter().map(|i| i.to_string()).collect::<Vec<_>>().join(","))).collect::<Vec<_>>().join(",")),
        ScadOp::RotateExtrude { angle, convexity, fn_, .. } => format!("\"op\":\"rotate_extrude\",\"angle\":{},\"convexity\":{},\"fn\":{}", num(*angle), convexity, ou(fn_)),
        ScadOp::Translate { v } => format!("\"op\":\"translate\",\"v\":{}", p3(v)),
        ScadOp::Rotate { a, a_is_scalar, v } => format!("\"op\":\"rotate\",\"a\":{},\"scalar\":{},\"v\":{}", on(a), a_is_scalar, p3(v)),
        ScadOp::Scale { v } => format!("\"op\":\"scale\",\"v\":{}", p3(v)),
        ScadOp::Color { color, alpha, .. } => format!("\"op\":\"color\",\"color\":{},\"alpha\":{}", match color { Some(c) => format!("\"{:?}\"", c), None => "null".into() }, on(alpha)),
        _ => "\"op\":\"other\"".to_string(),
    };
    format!("{{{},\"children\":[{}]}}", head, t.children.iter().map(tree_json).collect::<Vec<_>>().join(","))
}

fn pos(r: &mut Rng) -> f64 { r.cad().abs() + 0.05 }
fn msize(r: &mut Rng) -> f64 { match r.below(4) { 0 => *r.pick(&[-5.0, 0.0, 1.0, 2.0, 3.0, 7.0, 9.0, 11.0, 13.0, 100.0, 101.0, 130.0]), 1 => r.range(2, 100) as f64, _ => *r.pick(&[2.0, 3.0, 4.0, 5.0, 6.0, 8.0, 10.0, 12.0, 16.0, 20.0, 24.0, 30.0, 36.0, 42.0, 48.0, 56.0, 64.0, 72.0, 80.0, 90.0, 100.0]) } }
fn segs(r: &mut Rng) -> f64 { *r.pick(&[4.0, 5.0, 8.0, 16.0, 33.0]) }
fn lead(r: &mut Rng) -> f64 { *r.pick(&[0.0, 0.0, 1.0, 45.0, 90.0, 360.0, 300.0, 330.0]) }
fn fl01(r: &mut Rng) -> f64 { if r.coin() { 1.0 } else { 0.0 } }

pub fn gen_args(r: &mut Rng, op: i64) -> Vec<f64> { gen_args_fine(r, op, false) }
/// fine = a rod, tap or bolt whose angular step is one degree
pub fn gen_args_fine(r: &mut Rng, op: i64, fine: bool) -> Vec<f64> {
    // thread lengths are a few pitches so that the meshes stay small enough to be compared inside Coq
    let m = msize(r);
    let pitch = metric_thread::verif_m_table_lookup(m as i32).0;
    // one part in four is barely over two pitches long and tapered at both ends by most of a turn: the step count, the tapers
    // and the pitch per revolution interact only there
    let short = r.below(4) == 0;
    let len = pitch * if short { r.uniform(2.05, 2.9) } else { r.uniform(2.6, 7.0) };
    let lead = |r: &mut Rng| if short { *r.pick(&[360.0, 330.0, 300.0, 360.0, 90.0]) } else { lead(r) };
    // the second round of every run builds each rod, tap and bolt with a step of one degree (360 segments on barely two
    // pitches): lead-in / lead-out angles of a degree or so, and constants standing for "no taper", make a difference only there
    let fine = fine && (500..=502).contains(&op);
    let len = if fine { pitch * r.uniform(2.05, 2.4) } else { len };
    let segs = |r: &mut Rng| if fine { 360.0 } else { segs(r) };
    let lead = |r: &mut Rng| if fine { *r.pick(&[0.0, 1.0, 0.5, 2.0, 90.0]) } else { lead(r) };
    match op {
        500 => vec![m, len, segs(r), lead(r), lead(r), fl01(r), fl01(r)],
        501 => vec![m, len, segs(r), fl01(r), fl01(r)],
        502 => vec![m, len, 2.0 + pos(r) % 10.0, segs(r), lead(r), fl01(r), fl01(r), fl01(r)],
        503 => vec![m, 2.0 + pos(r) % 20.0, if pitch < 1.5 { 4.0 } else { *r.pick(&[4.0, 5.0, 8.0]) }, fl01(r), fl01(r), fl01(r)],
        504 => vec![pos(r) + 1.0, r.uniform(0.05, 1.0), pos(r), pos(r), 3.0 + r.below(30) as f64, fl01(r)],
        505 => vec![pos(r) + 1.0, r.uniform(0.05, 1.0), pos(r), r.deg(&[1.0, 90.0, 180.0, 359.0, 360.0]), 3.0 + r.below(30) as f64],
        506 => { let deg = r.deg(&[1.0, 90.0, 180.0, 359.0, 360.0, 360.0, 45.0, 361.0]); vec![r.below(3) as f64, if deg == 360.0 { 1.0 + r.below(12) as f64 } else { 2.0 + r.below(12) as f64 }, deg] }
        507 => { let od = pos(r) + 1.0; vec![od, od * r.uniform(0.01, 0.49), pos(r), fl01(r), 3.0 + r.below(60) as f64] }
        508 => vec![pos(r), pos(r), fl01(r), 3.0 + r.below(60) as f64],
        509 => { let od1 = pos(r) + 1.0; let od2 = pos(r) + 1.0; vec![od1, od2, od1.min(od2) * r.uniform(0.01, 0.49), pos(r), fl01(r), 3.0 + r.below(60) as f64] }
        510 => vec![pos(r), pos(r), pos(r), fl01(r), 3.0 + r.below(60) as f64],
        511 => { let od = pos(r) + 1.0; vec![od, od * r.uniform(0.01, 0.49), r.deg(&[1.0, 45.0, 90.0, 180.0, 359.0, 360.0, 360.0, 0.5, 0.0, -10.0, 360.5, 450.0]), *r.pick(&[0.0, 0.005, 1.0, 30.0, 250.0]), 3.0 + r.below(60) as f64] }
        512 => vec![pos(r) + 1.0, r.deg(&[1.0, 45.0, 90.0, 180.0, 359.0, 360.0, 360.0, 0.5, 0.0, -10.0, 360.5, 450.0]), *r.pick(&[0.0, 0.005, 1.0, 30.0, 250.0]), 3.0 + r.below(60) as f64],
        _ => { let pitch = *r.pick(&[0.4, 0.5, 0.8, 1.0, 1.25, 1.5, 2.0, 3.0, 6.0]); let d_maj = pitch * r.uniform(4.0, 12.0);
               let d_min = d_maj - 2.0 * 5.0 / 8.0 * (3.0f64.sqrt() / 2.0 * pitch);
               vec![d_min, d_maj, pitch, pitch * if short { r.uniform(2.05, 2.9) } else { r.uniform(2.5, 8.0) }, segs(r), lead(r), lead(r), fl01(r), fl01(r)] }
    }
}

pub fn emit(seed: u64, n: usize, lo: i64, hi: i64) {
    let mut r = Rng::new(seed);
    let (colors, names) = textgen::all_colors(); let _ = colors;
    let ops: Vec<i64> = (500..=513).filter(|o| *o >= lo && *o <= hi).collect();
    let mut count = 0;
    let mut round = 0;
    while count < n {
        round += 1;
        for op in ops.iter() {
            if count >= n { break; }
            let args = gen_args_fine(&mut r, *op, round == 2 && hi == 503);    // the thread property's own run (C16)
            // builders with a centre flag are always run with both settings on otherwise identical arguments
            let centre_slot = match op { 500 => Some(6), 501 => Some(4), 502 => Some(7), 503 => Some(5), 504 => Some(5), 507 => Some(3), 509 => Some(4), 513 => Some(8), _ => None };
            let variants: Vec<Vec<f64>> = match centre_slot { Some(k) => { let mut a0 = args.clone(); a0[k] = 0.0; let mut a1 = args.clone(); a1[k] = 1.0; vec![a0, a1] } None => vec![args] };
            for a in variants {
                clear_trig();
                let a2 = a.clone(); let o = *op;
                let res = catch(move || run(o, &a2));
                let tt = trig_table();
                let (term, json) = match &res { Some(t) => (format!("(Some {})", tree_term(t, &names)), tree_json(t)), None => ("None".to_string(), "null".to_string()) };
                println!("@@CASE@@ P\n({}, {}, {}, {})\n@@JSON@@ {{\"op\":{},\"args\":[{}],\"tree\":{}}}", z(o), fl(&a), term, tt, o,
                         a.iter().map(|x| format!("{:?}", x)).collect::<Vec<_>>().join(","), json);
                count += 1;
            }
        }
    }
}

pub fn emit_one(op: i64, a: &[f64]) {
    let (_, names) = textgen::all_colors();
    clear_trig();
    let a2 = a.to_vec();
    let res = catch(move || run(op, &a2));
    let tt = trig_table();
    let (term, json) = match &res { Some(t) => (format!("(Some {})", tree_term(t, &names)), tree_json(t)), None => ("None".to_string(), "null".to_string()) };
    println!("@@CASE@@ P\n({}, {}, {}, {})\n@@JSON@@ {{\"op\":{},\"args\":[{}],\"tree\":{}}}", z(op), fl(a), term, tt, op,
             a.iter().map(|x| format!("{:?}", x)).collect::<Vec<_>>().join(","), json);
}

/// table lookups through the hook
pub fn emit_lookup() {
    let mut ms: Vec<i32> = (-5..=130).collect();
    ms.extend([i32::MIN, -1000000, 1000, 65536, 1000000]);
    for m in ms {
        let (a, b, c, d, e) = metric_thread::verif_m_table_lookup(m);
        println!("({}, {})", z(m as i64), fl(&[a, b, c, d, e]));
    }
}
