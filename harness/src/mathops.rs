//! Flat-signature wrappers around every scad_tree_math impl: op id, float args -> float results.
//! The same numbering is used by coq/Run/MathOps.v.
use scad_tree::prelude::*;
use scad_tree::{Mt4, Pt4s};

fn p2(a: &[f64]) -> Pt2 { Pt2::new(a[0], a[1]) }
fn p3(a: &[f64]) -> Pt3 { Pt3::new(a[0], a[1], a[2]) }
fn p4(a: &[f64]) -> Pt4 { Pt4::new(a[0], a[1], a[2], a[3]) }
fn o2(p: Pt2) -> Vec<f64> { vec![p.x, p.y] }
fn o3(p: Pt3) -> Vec<f64> { vec![p.x, p.y, p.z] }
fn o4(p: Pt4) -> Vec<f64> { vec![p.x, p.y, p.z, p.w] }
fn m4(a: &[f64]) -> Mt4 { Mt4::new(p4(&a[0..4]), p4(&a[4..8]), p4(&a[8..12]), p4(&a[12..16])) }
fn om(m: Mt4) -> Vec<f64> {
    let mut v = o4(m.x); v.extend(o4(m.y)); v.extend(o4(m.z)); v.extend(o4(m.w)); v
}
fn l2(a: &[f64]) -> Pt2s { Pt2s::from_pt2s(a.chunks(2).map(p2).collect()) }
fn l3(a: &[f64]) -> Pt3s { Pt3s::from_pt3s(a.chunks(3).map(p3).collect()) }
fn ol2(l: &Pt2s) -> Vec<f64> { l.iter().flat_map(|p| o2(*p)).collect() }
fn ol3(l: &Pt3s) -> Vec<f64> { l.iter().flat_map(|p| o3(*p)).collect() }

pub const OPS: &[(i64, &str, &str)] = &[
    // id, name, signature (2/3/4 = point, s = scalar, i = index, a = angle, m = matrix, L2/L3 = list tail)
    (0, "pt2_index", "2i"), (1, "pt2_index_set", "2is"), (2, "pt2_add", "22"), (3, "pt2_sub", "22"),
    (4, "pt2_mul", "2s"), (5, "pt2_div", "2s"), (6, "pt2_neg", "2"), (7, "pt2_add_assign", "22"),
    (8, "pt2_sub_assign", "22"), (9, "pt2_mul_assign", "2s"), (10, "pt2_div_assign", "2s"),
    (11, "pt2_dot", "22"), (12, "pt2_len2", "2"), (13, "pt2_len", "2"), (14, "pt2_normalize", "2"),
    (15, "pt2_normalized", "2"), (16, "pt2_rotate", "2a"), (17, "pt2_rotated", "2a"),
    (18, "pt2_lerp", "22s"), (19, "pt2_to_xz", "2"), (20, "pt2_as_pt3", "2s"),
    (21, "pt2s_translate", "2L2"), (22, "pt2s_rotate", "aL2"),
    (30, "pt3_index", "3i"), (31, "pt3_index_set", "3is"), (32, "pt3_add", "33"), (33, "pt3_sub", "33"),
    (34, "pt3_mul", "3s"), (35, "pt3_div", "3s"), (36, "pt3_neg", "3"), (37, "pt3_add_assign", "33"),
    (38, "pt3_sub_assign", "33"), (39, "pt3_mul_assign", "3s"), (40, "pt3_div_assign", "3s"),
    (41, "pt3_dot", "33"), (42, "pt3_cross", "33"), (43, "pt3_len2", "3"), (44, "pt3_len", "3"),
    (45, "pt3_normalize", "3"), (46, "pt3_normalized", "3"),
    (47, "pt3_rotated_x", "3a"), (48, "pt3_rotated_y", "3a"), (49, "pt3_rotated_z", "3a"),
    (50, "pt3_rotate_x", "3a"), (51, "pt3_rotate_y", "3a"), (52, "pt3_rotate_z", "3a"),
    (53, "pt3_lerp", "33s"), (54, "pt3_as_pt4", "3s"),
    (55, "pt3s_from_pt2s", "sL2"), (56, "pt3s_translate", "3L3"),
    (57, "pt3s_rotate_x", "aL3"), (58, "pt3s_rotate_y", "aL3"), (59, "pt3s_rotate_z", "aL3"),
    (60, "pt4_index", "4i"), (61, "pt4_index_set", "4is"), (62, "pt4_add", "44"), (63, "pt4_sub", "44"),
    (64, "pt4_mul", "4s"), (65, "pt4_div", "4s"), (66, "pt4_neg", "4"), (67, "pt4_add_assign", "44"),
    (68, "pt4_sub_assign", "44"), (69, "pt4_mul_assign", "4s"), (70, "pt4_div_assign", "4s"),
    (71, "pt4_dot", "44"), (72, "pt4_cross", "44"), (73, "pt4_len2", "4"), (74, "pt4_len", "4"),
    (75, "pt4_normalize", "4"), (76, "pt4_normalized", "4"), (77, "pt4_lerp", "44s"), (78, "pt4_as_pt3", "4"),
    // Mt4 (C09 / C10)
    (100, "mt4_transposed", "m"), (101, "mt4_identity", ""), (102, "mt4_scale_matrix", "sss"),
    (103, "mt4_translate_matrix", "sss"), (104, "mt4_rot_x_matrix", "a"), (105, "mt4_rot_y_matrix", "a"),
    (106, "mt4_rot_z_matrix", "a"), (107, "mt4_rot_vec", "ua"), (108, "mt4_inverse", "m"),
    (109, "mt4_look_at_lh", "333"), (110, "mt4_mul_pt4", "m4"), (111, "mt4_mul_pt3", "m3"),
    (112, "mt4_mul_mt4", "mm"), (113, "mt4_index", "mi"), (114, "mt4_index_set", "mis"),
    (115, "pt3s_apply_matrix", "mL3"), (116, "mt4_look_at_rh", "333"), (117, "mt4_perspective", "ssss"),
    (118, "mt4_rotation_from_direction", "33"),
    // degree trig (C12)
    (140, "dsin", "a"), (141, "dcos", "a"), (142, "dtan", "a"), (143, "dasin", "r"), (144, "dacos", "r"),
    (145, "datan", "s"), (146, "approx_eq", "sss"),
];

/// run op on flat args; panics propagate to the caller's catch_unwind
pub fn run(op: i64, a: &[f64]) -> Vec<f64> {
    let bf = |x: bool| if x { 1.0 } else { 0.0 };
    match op {
        0 => vec![p2(a)[a[2] as usize]],
        1 => { let mut p = p2(a); p[a[2] as usize] = a[3]; o2(p) }
        2 => o2(p2(a) + p2(&a[2..])),
        3 => o2(p2(a) - p2(&a[2..])),
        4 => o2(p2(a) * a[2]),
        5 => o2(p2(a) / a[2]),
        6 => o2(-p2(a)),
        7 => { let mut p = p2(a); p += p2(&a[2..]); o2(p) }
        8 => { let mut p = p2(a); p -= p2(&a[2..]); o2(p) }
        9 => { let mut p = p2(a); p *= a[2]; o2(p) }
        10 => { let mut p = p2(a); p /= a[2]; o2(p) }
        11 => vec![p2(a).dot(p2(&a[2..]))],
        12 => vec![p2(a).len2()],
        13 => vec![p2(a).len()],
        14 => { let mut p = p2(a); p.normalize(); o2(p) }
        15 => o2(p2(a).normalized()),
        16 => { let mut p = p2(a); p.rotate(a[2]); o2(p) }
        17 => o2(p2(a).rotated(a[2])),
        18 => o2(p2(a).lerp(p2(&a[2..]), a[4])),
        19 => o3(p2(a).to_xz()),
        20 => o3(p2(a).as_pt3(a[2])),
        21 => { let mut l = l2(&a[2..]); l.translate(p2(a)); ol2(&l) }
        22 => { let mut l = l2(&a[1..]); l.rotate(a[0]); ol2(&l) }
        30 => vec![p3(a)[a[3] as usize]],
        31 => { let mut p = p3(a); p[a[3] as usize] = a[4]; o3(p) }
        32 => o3(p3(a) + p3(&a[3..])),
        33 => o3(p3(a) - p3(&a[3..])),
        34 => o3(p3(a) * a[3]),
        35 => o3(p3(a) / a[3]),
        36 => o3(-p3(a)),
        37 => { let mut p = p3(a); p += p3(&a[3..]); o3(p) }
        38 => { let mut p = p3(a); p -= p3(&a[3..]); o3(p) }
        39 => { let mut p = p3(a); p *= a[3]; o3(p) }
        40 => { let mut p = p3(a); p /= a[3]; o3(p) }
        41 => vec![p3(a).dot(p3(&a[3..]))],
        42 => o3(p3(a).cross(p3(&a[3..]))),
        43 => vec![p3(a).len2()],
        44 => vec![p3(a).len()],
        45 => { let mut p = p3(a); p.normalize(); o3(p) }
        46 => o3(p3(a).normalized()),
        47 => o3(p3(a).rotated_x(a[3])),
        48 => o3(p3(a).rotated_y(a[3])),
        49 => o3(p3(a).rotated_z(a[3])),
        50 => { let mut p = p3(a); p.rotate_x(a[3]); o3(p) }
        51 => { let mut p = p3(a); p.rotate_y(a[3]); o3(p) }
        52 => { let mut p = p3(a); p.rotate_z(a[3]); o3(p) }
        53 => o3(p3(a).lerp(p3(&a[3..]), a[6])),
        54 => o4(p3(a).as_pt4(a[3])),
        55 => ol3(&Pt3s::from_pt2s(&l2(&a[1..]), a[0])),
        56 => { let mut l = l3(&a[3..]); l.translate(p3(a)); ol3(&l) }
        57 => { let mut l = l3(&a[1..]); l.rotate_x(a[0]); ol3(&l) }
        58 => { let mut l = l3(&a[1..]); l.rotate_y(a[0]); ol3(&l) }
        59 => { let mut l = l3(&a[1..]); l.rotate_z(a[0]); ol3(&l) }
        60 => vec![p4(a)[a[4] as usize]],
        61 => { let mut p = p4(a); p[a[4] as usize] = a[5]; o4(p) }
        62 => o4(p4(a) + p4(&a[4..])),
        63 => o4(p4(a) - p4(&a[4..])),
        64 => o4(p4(a) * a[4]),
        65 => o4(p4(a) / a[4]),
        66 => o4(-p4(a)),
        67 => { let mut p = p4(a); p += p4(&a[4..]); o4(p) }
        68 => { let mut p = p4(a); p -= p4(&a[4..]); o4(p) }
        69 => { let mut p = p4(a); p *= a[4]; o4(p) }
        70 => { let mut p = p4(a); p /= a[4]; o4(p) }
        71 => vec![p4(a).dot(p4(&a[4..]))],
        72 => o4(p4(a).cross(p4(&a[4..]))),
        73 => vec![p4(a).len2()],
        74 => vec![p4(a).len()],
        75 => { let mut p = p4(a); p.normalize(); o4(p) }
        76 => o4(p4(a).normalized()),
        77 => o4(p4(a).lerp(p4(&a[4..]), a[8])),
        78 => o3(p4(a).as_pt3()),
        100 => om(m4(a).transposed()),
        101 => om(Mt4::identity()),
        102 => om(Mt4::scale_matrix(a[0], a[1], a[2])),
        103 => om(Mt4::translate_matrix(a[0], a[1], a[2])),
        104 => om(Mt4::rot_x_matrix(a[0])),
        105 => om(Mt4::rot_y_matrix(a[0])),
        106 => om(Mt4::rot_z_matrix(a[0])),
        107 => om(Mt4::rot_vec(a[0], a[1], a[2], a[3])),
        108 => match m4(a).inverse() { Some(m) => { let mut v = vec![1.0]; v.extend(om(m)); v } None => vec![0.0] },
        109 => om(Mt4::look_at_matrix_lh(p3(a), p3(&a[3..]), p3(&a[6..]))),
        110 => o4(m4(a) * p4(&a[16..])),
        111 => o3(m4(a) * p3(&a[16..])),
        112 => om(m4(a) * m4(&a[16..])),
        113 => vec![m4(a)[a[16] as usize]],
        114 => { let mut m = m4(a); m[a[16] as usize] = a[17]; om(m) }
        115 => { let mut l = l3(&a[16..]); l.apply_matrix(&m4(a)); ol3(&l) }
        116 => om(Mt4::look_at_matrix_rh(p3(a), p3(&a[3..]), p3(&a[6..]))),
        117 => om(Mt4::perspective_matrix(a[0], a[1], a[2], a[3])),
        118 => om(Mt4::rotation_from_direction(p3(a), p3(&a[3..]))),
        140 => vec![dsin(a[0])],
        141 => vec![dcos(a[0])],
        142 => vec![dtan(a[0])],
        143 => vec![dasin(a[0])],
        144 => vec![dacos(a[0])],
        145 => vec![datan(a[0])],
        146 => vec![bf(approx_eq(a[0], a[1], a[2]))],
        _ => panic!("unknown op {}", op),
    }
}

#[allow(dead_code)]
pub fn unused(_: Pt4s) {}
use scad_tree::{approx_eq, dacos, dasin, datan, dcos, dsin, dtan};
