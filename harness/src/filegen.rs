//! C13: Scad::save and the five scad_file! forms on real files, with pre-existing content.
use crate::textgen::{self, cstr, fnum, tree_term, us};
use crate::util::*;
use scad_tree::prelude::*;

fn chain(r: &mut Rng, depth: usize, colors: &[ScadColor]) -> Scad {
    let mut t = textgen::gen_tree(r, 0, colors);
    for _ in 0..depth {
        t = Scad { op: ScadOp::Translate { v: Pt3::new(1.0, 0.0, 0.5) }, children: vec![t] };
    }
    t
}

pub fn emit(seed: u64, n: usize, dir: &str, deep: usize) {
    let mut r = Rng::new(seed);
    let (colors, _) = textgen::all_colors();
    let cn: Vec<String> = colors.iter().map(|c| format!("{:?}", c)).collect();
    std::fs::create_dir_all(dir).unwrap();
    for i in 0..n {
        let k = 1 + r.below(4) as usize;
        let mut trees: Vec<Scad> = (0..k).map(|_| { let d = r.below(4) as u32; textgen::gen_tree(&mut r, d, &colors) }).collect();
        if i % 17 == 3 { trees = vec![chain(&mut r, deep, &colors)]; }
        let form = i % 6;   // 0 save (first tree only), 1 none, 2 fa, 3 fs, 4 fa+fs, 5 fn
        if form == 0 { trees.truncate(1); }
        let path = format!("{}/case_{}.scad", dir, i);
        // pre-existing content: none, empty, shorter, much longer
        match r.below(4) { 0 => { let _ = std::fs::remove_file(&path); }
                      1 => std::fs::write(&path, "").unwrap(),
                      2 => std::fs::write(&path, "x").unwrap(),
                      _ => std::fs::write(&path, "// old content\n".repeat(600)).unwrap() }
        let fa = textgen::num_f(&mut r); let fs = textgen::num_f(&mut r); let fnv = textgen::u(&mut r);
        let fmt_text: String = trees.iter().map(|t| format!("{}", t)).collect();
        let stack = if i % 17 == 3 { 256usize } else { *r.pick(&[1usize, 2, 8]) };
        // announced before the call: if the process dies inside it (a stack too small for the tree is an abort, not a panic),
        // the last announcement names the failing input
        println!("@@BEGIN@@ case {} form {} ({}) children {} chain_depth {} stack_mb {}", i, form,
                 ["Scad::save", "scad_file!(stack, path, children)", "scad_file!(.., fa=..)", "scad_file!(.., fs=..)", "scad_file!(.., fa=.., fs=..)", "scad_file!(.., fn=..)"][form],
                 trees.len(), if i % 17 == 3 { deep } else { 0 }, stack);
        { use std::io::Write; let _ = std::io::stdout().flush(); }
        let p2 = path.clone();
        let t2 = trees.clone();
        let ok = catch(move || {
            let ts = t2;
            macro_rules! call { ($($kw:tt)*) => {{
                match ts.len() {
                    1 => { scad_file!(stack, &p2, $($kw)* ts[0].clone();); }
                    2 => { scad_file!(stack, &p2, $($kw)* ts[0].clone(); ts[1].clone();); }
                    3 => { scad_file!(stack, &p2, $($kw)* ts[0].clone(); ts[1].clone(); ts[2].clone();); }
                    _ => { scad_file!(stack, &p2, $($kw)* ts[0].clone(); ts[1].clone(); ts[2].clone(); ts[3].clone();); }
                }
            }}; }
            match form {
                0 => ts[0].save(&p2),
                1 => call!(),
                2 => call!(fa=fa,),
                3 => call!(fs=fs,),
                4 => call!(fa=fa, fs=fs,),
                _ => call!(fn=fnv,),
            }
        });
        let content = if ok.is_some() { std::fs::read(&path).ok().map(|b| String::from_utf8_lossy(&b).to_string()) } else { None };
        let settings = match form {
            2 => format!("[(\"fa\", {})]", fnum(fa)), 3 => format!("[(\"fs\", {})]", fnum(fs)),
            4 => format!("[(\"fa\", {}); (\"fs\", {})]", fnum(fa), fnum(fs)),
            5 => format!("[(\"fn\", (FN {} {}))]", f(fnv as f64), cstr(&format!("{}", fnv))),
            _ => "[]".to_string(),
        };
        let terms: Vec<String> = trees.iter().map(|t| tree_term(t, &cn)).collect();
        println!("@@CASE@@ F\n({}, [{}], {}, {})", settings, terms.join("; "),
                 match content { Some(c) => format!("(Some {})", us(&c)), None => "None".to_string() }, us(&fmt_text));
        let _ = std::fs::remove_file(&path);
    }
    let _ = std::fs::remove_dir(dir);
}
