//! C04 / C05 (and the meshes of C16 / C18): every mesh builder on generated profiles, paths and parameters.
//! Output encoding (all floats): [npts, x y z ..., nfaces, (len, idx ...) ...]
use crate::polygen::{self, P};
use crate::util::*;
use scad_tree::prelude::*;
use scad_tree::Mt4;

pub fn enc(ph: &Polyhedron) -> Vec<f64> {
    let mut v = vec![ph.points.len() as f64];
    for p in ph.points.iter() { v.extend([p.x, p.y, p.z]); }
    v.push(ph.faces.len() as f64);
    for f in ph.faces.iter() { v.push(f.len() as f64); for i in f.iter() { v.push(*i as f64); } }
    v
}
fn poly_of(s: &Scad) -> Option<Polyhedron> {
    match &s.op { ScadOp::Polyhedron { points, faces, .. } => Some(Polyhedron { points: points.clone(), faces: faces.clone() }), _ => None }
}
fn find_polys(s: &Scad, out: &mut Vec<Polyhedron>) { if let Some(p) = poly_of(s) { out.push(p); } for c in s.children.iter() { find_polys(c, out); } }

fn prof(a: &[f64], n: usize) -> Pt2s { Pt2s::from_pt2s((0..n).map(|i| Pt2::new(a[2 * i], a[2 * i + 1])).collect()) }

pub fn run(op: i64, a: &[f64]) -> Vec<f64> {
    match op {
        // [height, n, profile...]
        400 => enc(&Polyhedron::linear_extrude(&prof(&a[2..], a[1] as usize), a[0])),
        401 => enc(&Polyhedron::cylinder(a[0], a[1], a[2] as u64)),
        // [height, n, lower..., upper...]
        402 => { let n = a[1] as usize; enc(&Polyhedron::loft(&prof(&a[2..], n), &prof(&a[2 + 2 * n..], n), a[0])) }
        // [degrees, segments, n, profile...]
        403 => enc(&Polyhedron::rotate_extrude(&prof(&a[3..], a[2] as usize), a[0], a[1] as usize)),
        // [twist, closed, n, m, profile..., path...]
        404 => { let n = a[2] as usize; let m = a[3] as usize;
                 let path = Pt3s::from_pt3s((0..m).map(|i| { let k = 4 + 2 * n + 3 * i; Pt3::new(a[k], a[k + 1], a[k + 2]) }).collect());
                 enc(&Polyhedron::sweep(&prof(&a[4..], n), &path, a[0], a[1] != 0.0)) }
        // [d_min, d_maj, pitch, length, segments, lead_in, lead_out, left, which(0 threads,1 rod)]
        405 => { let s = metric_thread::verif_threaded_cylinder(a[0], a[1], a[2], a[3], a[4] as u64, a[5], a[6], a[7] != 0.0, false);
                 let mut ps = Vec::new(); find_polys(&s, &mut ps); enc(&ps[a[8] as usize]) }
        // [point_radius, edge_radius, segments, sx sy sz ex ey ez]
        406 => { let mut v = Viewer::new(a[0], a[1], a[2] as u64);
                 v.add_lines3d(&vec![(Pt3::new(a[3], a[4], a[5]), Pt3::new(a[6], a[7], a[8]))], ScadColor::Red);
                 let mut ps = Vec::new(); find_polys(&v.into_scad(), &mut ps); enc(&ps[0]) }
        // polyhedron transforms on a linear extrusion: [kind, p0 p1 p2 (or angle / 16 matrix entries), height, n, profile...]
        407 => { let mut ph = Polyhedron::linear_extrude(&prof(&a[5..], a[4] as usize), a[3]); ph.translate(Pt3::new(a[0], a[1], a[2])); enc(&ph) }
        408 => { let mut ph = Polyhedron::linear_extrude(&prof(&a[4..], a[3] as usize), a[2]);
                 match a[0] as i64 { 0 => { ph.rotate_x(a[1]); } 1 => { ph.rotate_y(a[1]); } _ => { ph.rotate_z(a[1]); } } enc(&ph) }
        409 => { let m = Mt4::new(Pt4::new(a[0], a[1], a[2], a[3]), Pt4::new(a[4], a[5], a[6], a[7]), Pt4::new(a[8], a[9], a[10], a[11]), Pt4::new(a[12], a[13], a[14], a[15]));
                 let mut ph = Polyhedron::linear_extrude(&prof(&a[18..], a[17] as usize), a[16]); ph.apply_matrix(&m); enc(&ph) }
        _ => panic!("unknown mesh op"),
    }
}

fn flat(p: &[P]) -> Vec<f64> { p.iter().flat_map(|q| [q.0, q.1]).collect() }

fn path(r: &mut Rng, closed: bool) -> Vec<[f64; 3]> {
    let m = 2 + r.below(9) as usize;
    if closed {
        let m = m.max(4); let tilt = if r.coin() { 0.0 } else { r.uniform(-1.0, 1.0) }; let (ra, rb) = (r.uniform(20.0, 40.0), r.uniform(20.0, 40.0));
        return (0..m).map(|i| { let a = (360.0 * i as f64 / m as f64).to_radians(); [ra * a.cos(), rb * a.sin(), tilt * ra * a.cos()] }).collect();
    }
    match r.below(7) {
        6 => { // axis-aligned polyline with right angles (L, U, staircase shapes)
               let axes: [[f64; 3]; 6] = [[1.0, 0.0, 0.0], [-1.0, 0.0, 0.0], [0.0, 1.0, 0.0], [0.0, -1.0, 0.0], [0.0, 0.0, 1.0], [0.0, 0.0, -1.0]];
               let mut p = [0.0, 0.0, 0.0]; let mut out = vec![p]; let mut last = 99usize;
               for _ in 1..m.max(3) { let mut k = r.below(6) as usize; while k / 2 == last / 2 { k = r.below(6) as usize; } last = k;
                   let l = *r.pick(&[10.0, 20.0, 30.0]); p = [p[0] + axes[k][0] * l, p[1] + axes[k][1] * l, p[2] + axes[k][2] * l]; out.push(p); }
               out }
        0 => { let axes: [[f64; 3]; 6] = [[1.0, 0.0, 0.0], [-1.0, 0.0, 0.0], [0.0, 1.0, 0.0], [0.0, -1.0, 0.0], [0.0, 0.0, 1.0], [0.0, 0.0, -1.0]];
               let d = *r.pick(&axes); let o = [r.cad(), r.cad(), r.cad()];
               (0..m).map(|i| [o[0] + d[0] * 10.0 * i as f64, o[1] + d[1] * 10.0 * i as f64, o[2] + d[2] * 10.0 * i as f64]).collect() }
        1 => { let d = r.distinct(3); (0..m).map(|i| [d[0] * i as f64 * 0.01, d[1] * i as f64 * 0.01, d[2] * i as f64 * 0.01]).collect() }
        2 => (0..m).map(|i| { let a = (30.0 * i as f64).to_radians(); [30.0 * a.cos(), 30.0 * a.sin(), 8.0 * i as f64] }).collect(),       // helix
        3 => (0..m).map(|i| { let a = (20.0 * i as f64).to_radians(); [40.0 * a.cos(), 0.0, 40.0 * a.sin()] }).collect(),                  // arc in XZ, passes vertical
        _ => { let mut p = [0.0, 0.0, 0.0]; let mut out = vec![p];
               for _ in 1..m { p = [p[0] + r.uniform(5.0, 20.0), p[1] + r.uniform(-15.0, 15.0), p[2] + r.uniform(-15.0, 15.0)]; out.push(p); } out }
    }
}

pub fn gen_args(r: &mut Rng, op: i64, max_n: usize) -> (Vec<f64>, String) {
    let small_profile = |r: &mut Rng| { let (p, name) = polygen::cw_profile(r, max_n);
        // keep profiles of moderate size around the origin for sweeps
        let s = 5.0 / p.iter().map(|q| q.0.abs().max(q.1.abs())).fold(1e-9, f64::max);
        (p.iter().map(|q| (q.0 * s, q.1 * s)).collect::<Vec<P>>(), name) };
    match op {
        400 => { let (p, name) = polygen::cw_profile(r, max_n); let mut v = vec![r.cad().abs() + 0.01, p.len() as f64]; v.extend(flat(&p)); (v, name.to_string()) }
        401 => (vec![r.cad().abs() + 0.01, r.cad().abs() + 0.01, (4 + r.below(40)) as f64], "cylinder".into()),
        402 => { let (p, name) = polygen::cw_profile(r, max_n); let k = r.uniform(0.3, 1.5); let (dx, dy) = (r.cad() * 0.01, r.cad() * 0.01);
                 let mut up: Vec<P> = p.iter().map(|q| (q.0 * k + dx, q.1 * k + dy)).collect();
                 let mut low = p.clone();
                 match r.below(3) {
                     // the two profiles need not have the same shape: a regular polygon below a concave profile, or the same outline started one vertex later
                     0 => { let n = p.len(); low = (0..n).map(|i| { let a = -(i as f64) * std::f64::consts::TAU / n as f64; (3.0 * a.cos(), 3.0 * a.sin()) }).collect(); }
                     1 => { up.rotate_left(1); }
                     _ => {}
                 }
                 let mut v = vec![r.cad().abs() + 0.01, p.len() as f64]; v.extend(flat(&low)); v.extend(flat(&up)); (v, name.to_string()) }
        // 410: loft between profiles of different lengths (the Rust asserts)

        403 => { let (p, name) = small_profile(r);
                 // revolve profiles live at x > 0
                 let off = 6.0 + r.uniform(0.0, 20.0); let q: Vec<P> = p.iter().map(|c| (c.0 + off, c.1)).collect();
                 // one revolve in four stops right next to a quarter, half or full turn (tolerances in place of the `== 360` test show there)
                 let deg = if r.below(4) == 0 { let t = *r.pick(&[90.0, 180.0, 360.0, 360.0]); let d = *r.pick(&[1e-9, 1e-6, 1e-3, 4e-3, 0.05]); if t < 360.0 && r.coin() { t + d } else { t - d } }
                           else { *r.pick(&[1.0, 30.0, 89.0, 90.0, 91.0, 179.0, 180.0, 270.0, 359.0, 360.0, 360.0, 45.5]) };
                 let mut v = vec![deg, (3 + r.below(30)) as f64, q.len() as f64]; v.extend(flat(&q)); (v, name.to_string()) }
        404 => { let (p, name) = small_profile(r); let closed = r.below(3) == 0; let pa = path(r, closed);
                 let twist = if closed { *r.pick(&[0.0, 360.0, -720.0]) } else if r.below(4) == 0 { r.uniform(-400.0, 400.0) } else { *r.pick(&[0.0, 0.0, 37.0, 360.0, -720.0]) };
                 let mut v = vec![twist, if closed { 1.0 } else { 0.0 }, p.len() as f64, pa.len() as f64]; v.extend(flat(&p));
                 for q in pa.iter() { v.extend(q); } (v, name.to_string()) }
        405 => { let pitch = *r.pick(&[0.4, 0.5, 0.8, 1.0, 1.25, 1.5, 2.0, 3.0, 6.0]); let d_maj = pitch * r.uniform(4.0, 12.0);
                 let d_min = d_maj - 2.0 * 5.0 / 8.0 * (3.0f64.sqrt() / 2.0 * pitch);
                 let short = r.below(4) == 0;
                 let li = if short { *r.pick(&[360.0, 330.0, 300.0]) } else { *r.pick(&[0.0, 1.0, 90.0, 360.0, 45.0]) }; let lo = if short { *r.pick(&[360.0, 330.0, 300.0, 90.0]) } else { *r.pick(&[0.0, 1.0, 90.0, 360.0, 45.0]) };
                 (vec![d_min, d_maj, pitch, pitch * if short { r.uniform(2.05, 2.9) } else { r.uniform(2.5, 8.0) }, *r.pick(&[4.0, 5.0, 16.0, 33.0, 8.0]), li, lo, if r.coin() { 1.0 } else { 0.0 }, r.below(2) as f64], "thread".into()) }
        406 => { let s = r.distinct(3); let d: Vec<f64> = match r.below(6) { 0 => vec![0.0, 0.0, 7.0], 1 => vec![0.0, 0.0, -3.0], 2 => vec![5.0, 0.0, 0.0], 3 => vec![0.0, -2.0, 0.0], 4 => vec![1e-3, 0.0, 1e-3], _ => r.distinct(3) };
                 (vec![1.0, r.cad().abs() + 0.01, (4 + r.below(20)) as f64, s[0], s[1], s[2], s[0] + d[0], s[1] + d[1], s[2] + d[2]], "viewer-edge".into()) }
        407 => { let (p, name) = polygen::cw_profile(r, max_n); let t = r.distinct(3); let mut v = vec![t[0], t[1], t[2], r.cad().abs() + 0.01, p.len() as f64]; v.extend(flat(&p)); (v, name.to_string()) }
        408 => { let (p, name) = polygen::cw_profile(r, max_n); let mut v = vec![r.below(3) as f64, r.angle(), r.cad().abs() + 0.01, p.len() as f64]; v.extend(flat(&p)); (v, name.to_string()) }
        _ => { let (p, name) = polygen::cw_profile(r, max_n); let mut v = r.distinct(16); v[3] = 0.0; v[7] = 0.0; v[11] = 0.0; v[15] = 1.0; v.push(r.cad().abs() + 0.01); v.push(p.len() as f64); v.extend(flat(&p)); (v, name.to_string()) }
    }
}

pub fn emit(seed: u64, n: usize, lo: i64, hi: i64, max_n: usize) {
    let mut r = Rng::new(seed);
    let ops: Vec<i64> = (400..=409).filter(|o| *o >= lo && *o <= hi).collect();
    let mut count = 0;
    while count < n {
        for op in ops.iter() {
            if count >= n { break; }
            let (mut args, mut name) = gen_args(&mut r, *op, max_n);
            // the witness of the known finding `near-collinear-caps` runs first in every revolve batch: the library's chamfer outline
            // (vertices 0, 2, 3 collinear in exact arithmetic) moved right of the axis, revolved by a quarter turn, so that its
            // reversed order is triangulated for the end cap
            if *op == 403 && count < ops.len() {
                args = vec![90.0, 31.0, 7.0, 22.556320315782546, 5.0, 24.00794225741275, 5.0, 24.00794225741275, 3.548378058369796,
                            26.104698374152342, 1.4516219416302045, 27.556320315782546, 1.4516219416302045, 27.556320315782546, 0.0, 22.556320315782546, 0.0];
                name = "known_finding_witness_chamfer_reversed".to_string();
            }
            // the first twelve sweeps of every run follow an L-shaped path (a long leg, then a shorter one at a right angle) ending
            // towards +X, -X, +Y, -Y, +Z, -Z in turn, each direction once with a fixed and once with the generated profile: every branch of the end cap's projection choice is taken, and the last chord
            // is perpendicular to the overall displacement, so a cap projected along anything but its own direction collapses
            if *op == 404 && count < 12 * ops.len() {
                // odd ones keep the generated profile, even ones use a fixed concave outline in general position (clockwise, no three
                // vertices anywhere near a common line), so that an open cap cannot be put down to the near-collinear finding
                let k = count / ops.len();
                let (pl, prof): (usize, Vec<f64>) = if k % 2 == 1 { let pl = args[2] as usize; (pl, args[4..4 + 2 * pl].to_vec()) }
                    else { (5, vec![0.3, 3.1, 2.2, 0.9, 4.1, 2.6, 2.9, -2.3, -1.4, -1.7]) };
                let (first, last): ([f64; 3], [f64; 3]) = match k {
                    0 => ([0.0, 30.0, 0.0], [10.0, 0.0, 0.0]), 1 => ([0.0, 0.0, 30.0], [-10.0, 0.0, 0.0]),
                    2 => ([30.0, 0.0, 0.0], [0.0, 10.0, 0.0]), 3 => ([30.0, 0.0, 0.0], [0.0, -10.0, 0.0]),
                    4 => ([-30.0, 0.0, 0.0], [0.0, 0.0, 10.0]), 5 => ([0.0, -30.0, 0.0], [0.0, 0.0, -10.0]),
                    6 => ([0.0, 0.0, 30.0], [-10.0, 0.0, 0.0]), 7 => ([0.0, 30.0, 0.0], [10.0, 0.0, 0.0]),
                    8 => ([30.0, 0.0, 0.0], [0.0, -10.0, 0.0]), 9 => ([30.0, 0.0, 0.0], [0.0, 10.0, 0.0]),
                    10 => ([0.0, -30.0, 0.0], [0.0, 0.0, -10.0]), _ => ([-30.0, 0.0, 0.0], [0.0, 0.0, 10.0]) };
                let path = [0.0, 0.0, 0.0, first[0], first[1], first[2], first[0] + last[0], first[1] + last[1], first[2] + last[2]];
                let mut v = vec![args[0], 0.0, pl as f64, 3.0]; v.extend(prof); v.extend(path); args = v;
                name = format!("{} on an L-shaped path", name);
            }
            clear_trig();
            let a2 = args.clone(); let o = *op;
            let res = catch(move || run(o, &a2));
            let tt = trig_table();
            let rs = match res { Some(v) => format!("Some {}", fl(&v)), None => "None".to_string() };
            println!("# {}", name);
            println!("({}, {}, {}, {})", z(o), fl(&args), rs, tt);
            count += 1;
        }
    }
}
