//! C18: random Viewer histories; the history is printed as a Coq `list vop` and the scene as a tree.
use crate::textgen::{self, tree_term};
use crate::util::*;
use scad_tree::prelude::*;

fn t2(p: Pt2) -> String { format!("(Pt2 {} {})", f(p.x), f(p.y)) }
fn t3(p: Pt3) -> String { format!("(Pt3 {} {} {})", f(p.x), f(p.y), f(p.z)) }
fn g2(r: &mut Rng) -> Pt2 { Pt2::new(r.cad(), r.cad()) }
fn g3(r: &mut Rng) -> Pt3 { Pt3::new(r.cad(), r.cad(), r.cad()) }
fn edge3(r: &mut Rng) -> (Pt3, Pt3) {
    let s = g3(r);
    let d = match r.below(7) { 0 => Pt3::new(0.0, 0.0, 7.5), 1 => Pt3::new(0.0, 0.0, -3.25), 2 => Pt3::new(5.0, 0.0, 0.0), 3 => Pt3::new(0.0, -2.0, 0.0), 4 => Pt3::new(1e-3, 0.0, 2e-3), _ => g3(r) };
    (s, s + d)
}
fn edge2(r: &mut Rng) -> (Pt2, Pt2) {
    let s = g2(r);
    let d = match r.below(5) { 0 => Pt2::new(4.0, 0.0), 1 => Pt2::new(0.0, -3.0), 2 => Pt2::new(1e-3, 2e-3), _ => g2(r) };
    (s, s + d)
}

pub fn emit(seed: u64, n: usize, max_ops: u64) {
    let mut r = Rng::new(seed);
    let (colors, names) = textgen::all_colors();
    for case in 0..n {
        let pr = r.cad().abs() + 0.01; let er = r.cad().abs() + 0.01; let seg = 4 + r.below(9);
        let nops = if case % 11 == 0 { 0 } else { 1 + r.below(max_ops) };
        let mut v = Viewer::new(pr, er, seg);
        let mut terms: Vec<String> = Vec::new();
        clear_trig();
        for _ in 0..nops {
            let ci = r.below(colors.len() as u64) as usize; let col = colors[ci]; let c = format!("{}%N", ci);
            match r.below(13) {
                0 => { let p = g2(&mut r); v.add_pt2(p, col); terms.push(format!("VPt2 {} {}", t2(p), c)); }
                1 => { let p = g3(&mut r); v.add_pt3(p, col); terms.push(format!("VPt3 {} {}", t3(p), c)); }
                2 => { let k = r.below(4); let l: Vec<Pt2> = (0..k).map(|_| g2(&mut r)).collect(); v.add_pt2s(&Pt2s::from_pt2s(l.clone()), col);
                       terms.push(format!("VPt2s [{}] {}", l.iter().map(|p| t2(*p)).collect::<Vec<_>>().join("; "), c)); }
                3 => { let k = r.below(4); let l: Vec<Pt3> = (0..k).map(|_| g3(&mut r)).collect(); v.add_pt3s(&Pt3s::from_pt3s(l.clone()), col);
                       terms.push(format!("VPt3s [{}] {}", l.iter().map(|p| t3(*p)).collect::<Vec<_>>().join("; "), c)); }
                4 => { let k = r.below(3); let l: Vec<(Pt2, Pt2)> = (0..k).map(|_| edge2(&mut r)).collect(); v.add_lines2d(&l, col);
                       terms.push(format!("VLines2 [{}] {}", l.iter().map(|e| format!("({}, {})", t2(e.0), t2(e.1))).collect::<Vec<_>>().join("; "), c)); }
                5 => { let k = r.below(3); let l: Vec<(Pt3, Pt3)> = (0..k).map(|_| edge3(&mut r)).collect(); v.add_lines3d(&l, col);
                       terms.push(format!("VLines3 [{}] {}", l.iter().map(|e| format!("({}, {})", t3(e.0), t3(e.1))).collect::<Vec<_>>().join("; "), c)); }
                6 => { let (s, cc, e, sg) = (g2(&mut r), g2(&mut r), g2(&mut r), 1 + r.below(4)); v.add_quadratic_bezier2d(&QuadraticBezier2D::new(s, cc, e, sg));
                       terms.push(format!("VQuad2 {} {} {} {}%Z", t2(s), t2(cc), t2(e), sg)); }
                7 => { let (s, cc, e, sg) = (g3(&mut r), g3(&mut r), g3(&mut r), 1 + r.below(4)); v.add_quadratic_bezier3d(&QuadraticBezier3D::new(s, cc, e, sg));
                       terms.push(format!("VQuad3 {} {} {} {}%Z", t3(s), t3(cc), t3(e), sg)); }
                8 => { let (s, c1, c2, e, sg) = (g2(&mut r), g2(&mut r), g2(&mut r), g2(&mut r), 1 + r.below(4)); v.add_cubic_bezier2d(&CubicBezier2D::new(s, c1, c2, e, sg));
                       terms.push(format!("VCubic2 {} {} {} {} {}%Z", t2(s), t2(c1), t2(c2), t2(e), sg)); }
                9 => { let (s, c1, c2, e, sg) = (g3(&mut r), g3(&mut r), g3(&mut r), g3(&mut r), 1 + r.below(4)); v.add_cubic_bezier3d(&CubicBezier3D::new(s, c1, c2, e, sg));
                       terms.push(format!("VCubic3 {} {} {} {} {}%Z", t3(s), t3(c1), t3(c2), t3(e), sg)); }
                10 => { let mut ch = CubicBezierChain2D::new(g2(&mut r), g2(&mut r), g2(&mut r), g2(&mut r), 1 + r.below(3));
                        for _ in 0..r.below(3) { ch.add(r.cad().abs() + 0.1, g2(&mut r), g2(&mut r), 1 + r.below(3)); }
                        if r.coin() { ch.close(r.cad().abs() + 0.1, g2(&mut r), r.cad().abs() + 0.1, 1 + r.below(3)); }
                        v.add_cubic_bezier_chain2d(&ch);
                        terms.push(format!("VChain2 [{}]", ch.curves.iter().map(|c| format!("Curve2 {} {} {} {} {}%Z", t2(c.start), t2(c.control1), t2(c.control2), t2(c.end), c.segments)).collect::<Vec<_>>().join("; "))); }
                11 => { let mut ch = CubicBezierChain3D::new(g3(&mut r), g3(&mut r), g3(&mut r), g3(&mut r), 1 + r.below(3));
                        for _ in 0..r.below(3) { ch.add(r.cad().abs() + 0.1, g3(&mut r), g3(&mut r), 1 + r.below(3)); }
                        v.add_cubic_bezier_chain3d(&ch);
                        terms.push(format!("VChain3 [{}]", ch.curves.iter().map(|c| format!("Curve3 {} {} {} {} {}%Z", t3(c.start), t3(c.control1), t3(c.control2), t3(c.end), c.segments)).collect::<Vec<_>>().join("; "))); }
                _ => { let st = BezierStar::new(2 + r.below(2), 3.0, 0.8, 7.0, 0.9, 1 + r.below(2)); v.add_bezier_star(&st);
                       terms.push(format!("VChain2 [{}]", st.chain.curves.iter().map(|c| format!("Curve2 {} {} {} {} {}%Z", t2(c.start), t2(c.control1), t2(c.control2), t2(c.end), c.segments)).collect::<Vec<_>>().join("; "))); }
            }
        }
        let res = catch(move || v.into_scad());
        let tt = trig_table();
        let tree = match &res { Some(t) => format!("(Some {})", tree_term(t, &names)), None => "None".to_string() };
        println!("@@CASE@@ V\n({}, {}, {}%Z, [{}], {}, {})", f(pr), f(er), seg, terms.join("; "), tree, tt);
        println!("@@JSON@@ {}", match &res { Some(t) => crate::partgen::tree_json(t), None => "null".to_string() });
    }
}
