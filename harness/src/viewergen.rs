//! C18: random Viewer histories; the history is printed as a Coq `list vop` and the scene as a tree.
use crate::textgen::{self, tree_term};
use crate::util::*;
use scad_tree::prelude::*;

fn t2(p: Pt2) -> String { format!("(Pt2 {} {})", f(p.x), f(p.y)) }
fn t3(p: Pt3) -> String { format!("(Pt3 {} {} {})", f(p.x), f(p.y), f(p.z)) }
fn g2(r: &mut Rng) -> Pt2 { Pt2::new(r.cad(), r.cad()) }
fn g3(r: &mut Rng) -> Pt3 { Pt3::new(r.cad(), r.cad(), r.cad()) }
fn edge3(r: &mut Rng) -> (Pt3, Pt3) {
    let mut s = g3(r);
    let sel = r.below(7);
    // vertical edges: start heights on both sides of z = 0 and of the edge's own extent, so that the signs of start.z,
    // end.z and end.z - start.z come in every combination (the look_at branch for vertical directions sees them all)
    if sel < 2 { s.z = *r.pick(&[-20.0, -5.0, -1.0, 0.0, 1.5, 4.0, 30.0]); }
    let d = match sel { 0 => Pt3::new(0.0, 0.0, 7.5), 1 => Pt3::new(0.0, 0.0, -3.25), 2 => Pt3::new(5.0, 0.0, 0.0), 3 => Pt3::new(0.0, -2.0, 0.0), 4 => Pt3::new(1e-3, 0.0, 2e-3), _ => g3(r) };
    (s, s + d)
}
fn edge2(r: &mut Rng) -> (Pt2, Pt2) {
    let s = g2(r);
    let d = match r.below(5) { 0 => Pt2::new(4.0, 0.0), 1 => Pt2::new(0.0, -3.0), 2 => Pt2::new(1e-3, 2e-3), _ => g2(r) };
    (s, s + d)
}

/// the items of a scene: the first call wraps its item in a one-child union, every later call builds union [scene so far, item]
fn scene_parts(t: &Scad) -> Vec<&Scad> {
    if matches!(t.op, ScadOp::Union) && t.children.len() == 2 { let mut v = scene_parts(&t.children[0]); v.push(&t.children[1]); v }
    else if matches!(t.op, ScadOp::Union) && t.children.len() == 1 { vec![&t.children[0]] } else { vec![t] }
}
fn edge_part_check(part: &Scad, edges: &[(Pt3, Pt3)], radius: f64) -> Option<String> {
    if !matches!(part.op, ScadOp::Color { .. }) { return Some("the added item is not a colour group".into()); }
    if part.children.len() != edges.len() { return Some(format!("{} cylinders for {} edges", part.children.len(), edges.len())); }
    for (c, (s, e)) in part.children.iter().zip(edges.iter()) {
        if let ScadOp::Polyhedron { points, .. } = &c.op {
            let n = points.len() / 2; if n == 0 { return Some("empty cylinder".into()); }
            let cen = |ps: &[Pt3]| { let mut a = Pt3::new(0.0, 0.0, 0.0); for p in ps { a = a + *p; } a / ps.len() as f64 };
            let (b, t) = (cen(&points[..n]), cen(&points[n..]));
            let scale = 1.0 + s.len() + e.len() + radius;
            if (b - *s).len() > 1e-7 * scale || (t - *e).len() > 1e-7 * scale { return Some(format!("cylinder axis runs from {:?} to {:?} but the edge from {:?} to {:?}", b, t, s, e)); }
            for p in &points[..n] { if ((*p - *s).len() - radius).abs() > 1e-7 * scale { return Some(format!("bottom ring point at distance {} from the start, edge radius {}", (*p - *s).len(), radius)); } }
        } else { return Some("an edge item is not a polyhedron".into()); }
    }
    None
}

/// what a point call adds: for a single point translate(p){color(c){sphere(point radius, $fn = segments)}}, for a list one colour group
/// (the requested colour, opaque) holding translate(p){sphere} for every point in order
fn sphere_ok(s: &Scad, pr: f64, seg: u64) -> bool {
    matches!(&s.op, ScadOp::Sphere { radius, fn_, .. } if *radius == pr && *fn_ == Some(seg)) && s.children.is_empty()
}
fn colour_ok(op: &ScadOp, col: ScadColor, need_opaque: bool) -> bool {
    match op { ScadOp::Color { rgba: None, color: Some(c), hex: None, alpha } => *c == col && (!need_opaque || *alpha == Some(1.0) || alpha.is_none()), _ => false }
}
fn point_part_check(part: &Scad, pts: &[Pt3], col: ScadColor, single: bool, pr: f64, seg: u64) -> Option<String> {
    if single {
        let p = pts[0];
        match &part.op { ScadOp::Translate { v } if *v == p => {}, _ => return Some(format!("the item is not translate({:?})", p)) }
        if part.children.len() != 1 || !colour_ok(&part.children[0].op, col, false) { return Some("the point is not in the requested colour".into()); }
        let c = &part.children[0];
        if c.children.len() != 1 || !sphere_ok(&c.children[0], pr, seg) { return Some("the point is not a sphere of the point radius with the viewer's segment count".into()); }
        None
    } else {
        if !colour_ok(&part.op, col, true) { return Some("the item is not one opaque group in the requested colour".into()); }
        if part.children.len() != pts.len() { return Some(format!("{} spheres for {} points", part.children.len(), pts.len())); }
        for (c, p) in part.children.iter().zip(pts.iter()) {
            match &c.op { ScadOp::Translate { v } if *v == *p => {}, _ => return Some(format!("a sphere is not at its point {:?}", p)) }
            if c.children.len() != 1 || !sphere_ok(&c.children[0], pr, seg) { return Some("a point is not a sphere of the point radius with the viewer's segment count".into()); }
        }
        None
    }
}

pub fn emit(seed: u64, n: usize, max_ops: u64) {
    let mut r = Rng::new(seed);
    let (colors, names) = textgen::all_colors();
    for case in 0..n {
        let pr = r.cad().abs() + 0.01; let er = r.cad().abs() + 0.01; let seg = 4 + r.below(9);
        let nops = if case % 11 == 0 { 0 } else { 1 + r.below(max_ops) };   // (case 1 always has at least one call: see forced_vertical)
        let mut ops: Vec<Box<dyn Fn(&mut Viewer)>> = Vec::new();
        let mut edges_of: Vec<Option<Vec<(Pt3, Pt3)>>> = Vec::new();
        let mut pts_of: Vec<Option<(Vec<Pt3>, ScadColor, bool)>> = Vec::new();
        let mut col_of: Vec<Option<ScadColor>> = Vec::new();
        let mut terms: Vec<String> = Vec::new();
        for _ in 0..nops {
            let ci = r.below(colors.len() as u64) as usize; let col = colors[ci]; let c = format!("{}%N", ci);
            // the second history of every run starts with one add_lines3d of nine exactly vertical edges: upward and downward,
            // ending below, at and above z = 0, starting at 0 -- every sign pattern of start.z, end.z and end.z - start.z
            let forced_vertical = case == 1 && terms.is_empty();
            match if forced_vertical { 5 } else { r.below(13) } {
                0 => { let p = g2(&mut r); pts_of.push(Some((vec![p.as_pt3(0.0)], col, true))); col_of.push(None); ops.push(Box::new(move |v: &mut Viewer| v.add_pt2(p, col))); edges_of.push(None); terms.push(format!("VPt2 {} {}", t2(p), c)); }
                1 => { let p = g3(&mut r); pts_of.push(Some((vec![p], col, true))); col_of.push(None); ops.push(Box::new(move |v: &mut Viewer| v.add_pt3(p, col))); edges_of.push(None); terms.push(format!("VPt3 {} {}", t3(p), c)); }
                2 => { let k = r.below(4); let l: Vec<Pt2> = (0..k).map(|_| g2(&mut r)).collect(); pts_of.push(Some((l.iter().map(|p| p.as_pt3(0.0)).collect(), col, false))); col_of.push(None); { let l2 = l.clone(); ops.push(Box::new(move |v: &mut Viewer| v.add_pt2s(&Pt2s::from_pt2s(l2.clone()), col))); edges_of.push(None); }
                       terms.push(format!("VPt2s [{}] {}", l.iter().map(|p| t2(*p)).collect::<Vec<_>>().join("; "), c)); }
                3 => { let k = r.below(4); let l: Vec<Pt3> = (0..k).map(|_| g3(&mut r)).collect(); pts_of.push(Some((l.clone(), col, false))); col_of.push(None); { let l2 = l.clone(); ops.push(Box::new(move |v: &mut Viewer| v.add_pt3s(&Pt3s::from_pt3s(l2.clone()), col))); edges_of.push(None); }
                       terms.push(format!("VPt3s [{}] {}", l.iter().map(|p| t3(*p)).collect::<Vec<_>>().join("; "), c)); }
                4 => { let k = r.below(3); let l: Vec<(Pt2, Pt2)> = (0..k).map(|_| edge2(&mut r)).collect(); pts_of.push(None); col_of.push(Some(col)); { let l2 = l.clone(); edges_of.push(Some(l.iter().map(|e| (e.0.as_pt3(0.0), e.1.as_pt3(0.0))).collect())); ops.push(Box::new(move |v: &mut Viewer| v.add_lines2d(&l2, col))); }
                       terms.push(format!("VLines2 [{}] {}", l.iter().map(|e| format!("({}, {})", t2(e.0), t2(e.1))).collect::<Vec<_>>().join("; "), c)); }
                5 => { let k = r.below(5); let mut l: Vec<(Pt3, Pt3)> = (0..k).map(|_| edge3(&mut r)).collect();
                       if forced_vertical { let (x, y) = (r.cad(), r.cad());
                           l = [(-20.0, 7.5), (-5.0, 7.5), (1.5, 7.5), (-7.5, 7.5), (0.0, 7.5), (30.0, -3.25), (1.5, -3.25), (-1.0, -3.25), (3.25, -3.25), (0.0, -3.25)]
                               .iter().map(|(z0, dz)| (Pt3::new(x, y, *z0), Pt3::new(x, y, z0 + dz))).collect(); } pts_of.push(None); col_of.push(Some(col)); { let l2 = l.clone(); edges_of.push(Some(l.clone())); ops.push(Box::new(move |v: &mut Viewer| v.add_lines3d(&l2, col))); }
                       terms.push(format!("VLines3 [{}] {}", l.iter().map(|e| format!("({}, {})", t3(e.0), t3(e.1))).collect::<Vec<_>>().join("; "), c)); }
                6 => { pts_of.push(None); col_of.push(None); let (s, cc, e, sg) = (g2(&mut r), g2(&mut r), g2(&mut r), 1 + r.below(4)); ops.push(Box::new(move |v: &mut Viewer| v.add_quadratic_bezier2d(&QuadraticBezier2D::new(s, cc, e, sg)))); edges_of.push(None);
                       terms.push(format!("VQuad2 {} {} {} {}%Z", t2(s), t2(cc), t2(e), sg)); }
                7 => { pts_of.push(None); col_of.push(None); let (s, cc, e, sg) = (g3(&mut r), g3(&mut r), g3(&mut r), 1 + r.below(4)); ops.push(Box::new(move |v: &mut Viewer| v.add_quadratic_bezier3d(&QuadraticBezier3D::new(s, cc, e, sg)))); edges_of.push(None);
                       terms.push(format!("VQuad3 {} {} {} {}%Z", t3(s), t3(cc), t3(e), sg)); }
                8 => { pts_of.push(None); col_of.push(None); let (s, c1, c2, e, sg) = (g2(&mut r), g2(&mut r), g2(&mut r), g2(&mut r), 1 + r.below(4)); ops.push(Box::new(move |v: &mut Viewer| v.add_cubic_bezier2d(&CubicBezier2D::new(s, c1, c2, e, sg)))); edges_of.push(None);
                       terms.push(format!("VCubic2 {} {} {} {} {}%Z", t2(s), t2(c1), t2(c2), t2(e), sg)); }
                9 => { pts_of.push(None); col_of.push(None); let (s, c1, c2, e, sg) = (g3(&mut r), g3(&mut r), g3(&mut r), g3(&mut r), 1 + r.below(4)); ops.push(Box::new(move |v: &mut Viewer| v.add_cubic_bezier3d(&CubicBezier3D::new(s, c1, c2, e, sg)))); edges_of.push(None);
                       terms.push(format!("VCubic3 {} {} {} {} {}%Z", t3(s), t3(c1), t3(c2), t3(e), sg)); }
                10 => { pts_of.push(None); col_of.push(None); let mut ch = CubicBezierChain2D::new(g2(&mut r), g2(&mut r), g2(&mut r), g2(&mut r), 1 + r.below(3));
                        for _ in 0..r.below(3) { ch.add(r.cad().abs() + 0.1, g2(&mut r), g2(&mut r), 1 + r.below(3)); }
                        if r.coin() { ch.close(r.cad().abs() + 0.1, g2(&mut r), r.cad().abs() + 0.1, 1 + r.below(3)); }
                        { let ch2 = ch.clone(); ops.push(Box::new(move |v: &mut Viewer| v.add_cubic_bezier_chain2d(&ch2))); edges_of.push(None); }
                        terms.push(format!("VChain2 [{}]", ch.curves.iter().map(|c| format!("Curve2 {} {} {} {} {}%Z", t2(c.start), t2(c.control1), t2(c.control2), t2(c.end), c.segments)).collect::<Vec<_>>().join("; "))); }
                11 => { pts_of.push(None); col_of.push(None); let mut ch = CubicBezierChain3D::new(g3(&mut r), g3(&mut r), g3(&mut r), g3(&mut r), 1 + r.below(3));
                        for _ in 0..r.below(3) { ch.add(r.cad().abs() + 0.1, g3(&mut r), g3(&mut r), 1 + r.below(3)); }
                        { let ch2 = ch.clone(); ops.push(Box::new(move |v: &mut Viewer| v.add_cubic_bezier_chain3d(&ch2))); edges_of.push(None); }
                        terms.push(format!("VChain3 [{}]", ch.curves.iter().map(|c| format!("Curve3 {} {} {} {} {}%Z", t3(c.start), t3(c.control1), t3(c.control2), t3(c.end), c.segments)).collect::<Vec<_>>().join("; "))); }
                _ => { pts_of.push(None); col_of.push(None); let st = BezierStar::new(2 + r.below(2), 3.0, 0.8, 7.0, 0.9, 1 + r.below(2)); { let st2 = st.clone(); ops.push(Box::new(move |v: &mut Viewer| v.add_bezier_star(&st2))); edges_of.push(None); }
                       terms.push(format!("VChain2 [{}]", st.chain.curves.iter().map(|c| format!("Curve2 {} {} {} {} {}%Z", t2(c.start), t2(c.control1), t2(c.control2), t2(c.end), c.segments)).collect::<Vec<_>>().join("; "))); }
            }
        }
        let run_prefix = |k: usize| -> Option<Scad> { catch(std::panic::AssertUnwindSafe(|| { let mut v = Viewer::new(pr, er, seg); for op in ops.iter().take(k) { op(&mut v); } v.into_scad() })) };
        // oracle on the implementation itself: the scene after k calls consists of the parts of the scene after k-1 calls, in order, plus new ones;
        // the part added by an edge call is one group with one cylinder per edge running from the start to the end of the edge
        let mut prev: Vec<String> = Vec::new();
        let mut trig_keep: Vec<String> = Vec::new();
        for k in 1..=ops.len() {
            match run_prefix(k) {
                None => { println!("@@ORACLE@@ scene_after_call_is_a_tree call {} of {}: the call or into_scad panics", k, ops.len()); break; }
                Some(t) => {
                    let parts = scene_parts(&t);
                    let ps: Vec<String> = parts.iter().map(|p| format!("{}", p)).collect();
                    if ps.len() <= prev.len() || ps[..prev.len()] != prev[..] {
                        println!("@@ORACLE@@ earlier_items_kept call {} of {}: {} parts before, {} after, earlier parts {}", k, ops.len(), prev.len(), ps.len(),
                                 if ps.len() >= prev.len() && ps[..prev.len()] == prev[..] { "kept" } else { "changed or dropped" });
                    }
                    if let Some(es) = &edges_of[k - 1] {
                        if let Some(msg) = edge_part_check(parts.last().unwrap(), es, er) { println!("@@ORACLE@@ edge_runs_from_start_to_end call {}: {}", k, msg); }
                        if let Some(c) = col_of[k - 1] { if !colour_ok(&parts.last().unwrap().op, c, true) { println!("@@ORACLE@@ edges_in_requested_colour call {}: the edge group is not opaque {:?}", k, c); } }
                    }
                    if let Some((ps3, c, single)) = &pts_of[k - 1] {
                        if let Some(msg) = point_part_check(parts.last().unwrap(), ps3, *c, *single, pr, seg) { println!("@@ORACLE@@ sphere_at_each_point_in_requested_colour call {}: {}", k, msg); }
                    }
                    prev = ps;
                }
            }
        }
        let _ = &mut trig_keep;
        clear_trig();
        let res = run_prefix(ops.len());
        let tt = trig_table();
        let tree = match &res { Some(t) => format!("(Some {})", tree_term(t, &names)), None => "None".to_string() };
        println!("@@CASE@@ V\n({}, {}, {}%Z, [{}], {}, {})", f(pr), f(er), seg, terms.join("; "), tree, tt);
        println!("@@JSON@@ {}", match &res { Some(t) => crate::partgen::tree_json(t), None => "null".to_string() });
    }
}
