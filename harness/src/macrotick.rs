//! Ticking argument expressions for the macro correspondence (C06): each call counts one evaluation
//! of argument slot `i` and records the value it produced as a Coq `mval` term.
use crate::textgen::{self, us};
use crate::util::*;
use scad_tree::prelude::*;
use std::cell::RefCell;

thread_local! {
    pub static COUNTS: RefCell<Vec<u32>> = RefCell::new(vec![0; 32]);
    pub static VALUES: RefCell<Vec<String>> = RefCell::new(vec![String::new(); 32]);
}
pub fn reset() { COUNTS.with(|c| *c.borrow_mut() = vec![0; 32]); VALUES.with(|v| *v.borrow_mut() = vec![String::new(); 32]); }
fn tick(i: usize, term: String) { COUNTS.with(|c| c.borrow_mut()[i] += 1); VALUES.with(|v| v.borrow_mut()[i] = term); }

pub fn tf(i: usize, r: &mut Rng) -> f64 { let x = r.cad(); tick(i, format!("(MF {})", f(x))); x }
pub fn tu(i: usize, r: &mut Rng) -> u64 { let x = 2 + r.below(200); tick(i, format!("(MN {}%N)", x)); x }
pub fn tb(i: usize, r: &mut Rng) -> bool { let x = r.coin(); tick(i, format!("(MB {})", b(x))); x }
pub fn ts(i: usize, r: &mut Rng) -> &'static str {
    let x = *r.pick(&["hello", "Liberation Sans:style=Bold", "a\"b", "part.stl", "#ff00aa", "caf\u{e9}"]);
    tick(i, format!("(MS {})", us(x))); x
}
pub fn tp2s(i: usize, r: &mut Rng) -> Pt2s {
    let n = 3 + r.below(3); let v: Vec<Pt2> = (0..n).map(|_| Pt2::new(r.cad(), r.cad())).collect();
    tick(i, format!("(MVec [{}])", v.iter().map(|p| format!("MVec [MF {}; MF {}]", f(p.x), f(p.y))).collect::<Vec<_>>().join("; ")));
    Pt2s::from_pt2s(v)
}
pub fn tp3s(i: usize, r: &mut Rng) -> Pt3s {
    let n = 4 + r.below(3); let v: Vec<Pt3> = (0..n).map(|_| Pt3::new(r.cad(), r.cad(), r.cad())).collect();
    tick(i, format!("(MVec [{}])", v.iter().map(|p| format!("MVec [MF {}; MF {}; MF {}]", f(p.x), f(p.y), f(p.z))).collect::<Vec<_>>().join("; ")));
    Pt3s::from_pt3s(v)
}
pub fn tpaths(i: usize, r: &mut Rng) -> Paths {
    let n = 1 + r.below(3);
    let v: Vec<Vec<u64>> = (0..n).map(|_| (0..(3 + r.below(2))).map(|_| r.below(6)).collect()).collect();
    tick(i, format!("(MVec [{}])", v.iter().map(|p| format!("MVec [{}]", p.iter().map(|x| format!("MN {}%N", x)).collect::<Vec<_>>().join("; "))).collect::<Vec<_>>().join("; ")));
    Paths::from_paths(v.into_iter().map(Indices::from_indices).collect())
}
pub fn tha(i: usize, r: &mut Rng) -> TextHalign { let x = *r.pick(&[TextHalign::left, TextHalign::center, TextHalign::right]); tick(i, format!("(ME \"{:?}\")", x)); x }
pub fn tva(i: usize, r: &mut Rng) -> TextValign { let x = *r.pick(&[TextValign::top, TextValign::center, TextValign::baseline, TextValign::bottom]); tick(i, format!("(ME \"{:?}\")", x)); x }
pub fn tdir(i: usize, r: &mut Rng) -> TextDirection { let x = *r.pick(&[TextDirection::ltr, TextDirection::rtl, TextDirection::ttb, TextDirection::btt]); tick(i, format!("(ME \"{:?}\")", x)); x }
pub fn tcol(i: usize, r: &mut Rng) -> ScadColor { let x = *r.pick(crate::colors::ALL); tick(i, format!("(ME \"{:?}\")", x)); x }
pub fn ttp(i: usize, r: &mut Rng) -> TextParams {
    let p = TextParams { text: "t\u{e9}xt".to_string(), size: r.cad(), font: "Some Font".to_string(),
        halign: *r.pick(&[TextHalign::left, TextHalign::center, TextHalign::right]),
        valign: *r.pick(&[TextValign::top, TextValign::center, TextValign::baseline, TextValign::bottom]),
        spacing: r.cad(), direction: *r.pick(&[TextDirection::ltr, TextDirection::rtl, TextDirection::ttb, TextDirection::btt]),
        language: "fr".to_string(), script: "cyrillic".to_string(), fn_: if r.coin() { Some(2 + r.below(50)) } else { None } };
    tick(i, format!("(MRec [(\"text\", MS {}); (\"size\", MF {}); (\"font\", MS {}); (\"halign\", ME \"{:?}\"); (\"valign\", ME \"{:?}\"); (\"spacing\", MF {}); (\"direction\", ME \"{:?}\"); (\"language\", MS {}); (\"script\", MS {}); (\"fn_\", {})])",
        us(&p.text), f(p.size), us(&p.font), p.halign, p.valign, f(p.spacing), p.direction, us(&p.language), us(&p.script),
        match p.fn_ { Some(n) => format!("MSome (MN {}%N)", n), None => "MNone".to_string() }));
    p
}
pub fn tchild(i: usize, r: &mut Rng) -> Scad {
    let (colors, names) = textgen::all_colors();
    let t = textgen::gen_tree(r, 1, &colors);
    tick(i, format!("(MTree {})", textgen::tree_term(&t, &names)));
    t
}

pub fn emit(seed: u64, rounds: usize) {
    let mut r = Rng::new(seed);
    let (colors, names) = textgen::all_colors();
    // a + b, a - b, Polyhedron::into_scad(_with_convexity)
    for k in 0..(8 * rounds) {
        let a = textgen::gen_tree(&mut r, 2, &colors);
        let bb = textgen::gen_tree(&mut r, 2, &colors);
        let (expected, got) = match k % 4 {
            0 => (Scad { op: ScadOp::Union, children: vec![a.clone(), bb.clone()] }, a.clone() + bb.clone()),
            1 => (Scad { op: ScadOp::Difference, children: vec![a.clone(), bb.clone()] }, a.clone() - bb.clone()),
            _ => {
                let n = 4 + r.below(5);
                let pts = Pt3s::from_pt3s((0..n).map(|_| Pt3::new(r.cad(), r.cad(), r.cad())).collect());
                let faces = Paths::from_faces((0..(1 + r.below(4))).map(|_| Indices::from_indices((0..(3 + r.below(2))).map(|_| r.below(n)).collect())).collect());
                let ph = Polyhedron { points: pts.clone(), faces: faces.clone() };
                if k % 4 == 2 {
                    (Scad { op: ScadOp::Polyhedron { points: pts, faces, convexity: 1 }, children: vec![] }, ph.into_scad())
                } else {
                    let cv = 1 + r.below(20);
                    (Scad { op: ScadOp::Polyhedron { points: pts, faces, convexity: cv }, children: vec![] }, ph.into_scad_with_convexity(cv))
                }
            }
        };
        println!("@@CASE@@ O\n({}, {})", textgen::tree_term(&expected, &names), textgen::tree_term(&got, &names));
    }
    // TextParams::default() holds OpenSCAD's defaults of text(): size 10, font "Liberation Sans", left / baseline, spacing 1,
    // ltr, language "en", script "latin", $fn unset (written here from OpenSCAD's documentation, not from the crate)
    {
        let tp = TextParams { text: "abc".to_string(), ..Default::default() };
        let got = text!(text_params = tp);
        let expected = Scad { op: ScadOp::Text { text: "abc".to_string(), size: 10.0, font: "Liberation Sans".to_string(), halign: TextHalign::left,
                                                 valign: TextValign::baseline, spacing: 1.0, direction: TextDirection::ltr, language: "en".to_string(),
                                                 script: "latin".to_string(), fn_: None }, children: vec![] };
        println!("@@CASE@@ O\n({}, {})", textgen::tree_term(&expected, &names), textgen::tree_term(&got, &names));
    }
    for round in 0..rounds {
        for k in 0..crate::macro_cases::N_ARMS {
            reset();
            let nch = 1 + (round + k) % 4;
            let mut r2 = Rng(r.next());
            let res = catch(move || crate::macro_cases::run_arm(k, nch, &mut r2));
            let counts: Vec<u32> = COUNTS.with(|c| c.borrow().clone());
            let values: Vec<String> = VALUES.with(|v| v.borrow().clone());
            // an argument the arm never evaluated has no recorded value: it is printed as MBad with count 0
            let used = values.iter().rposition(|s| !s.is_empty()).map(|p| p + 1).unwrap_or(0);
            let tree = match res { Some(Some(t)) => format!("(Some {})", textgen::tree_term(&t, &names)), _ => "None".to_string() };
            println!("@@CASE@@ M\n({}%nat, [{}], {}, [{}])", k,
                     values[..used].iter().map(|s| if s.is_empty() { "MBad".to_string() } else { s.clone() }).collect::<Vec<_>>().join("; "), tree, counts[..used].iter().map(|c| format!("{}%nat", c)).collect::<Vec<_>>().join("; "));
        }
    }
}
