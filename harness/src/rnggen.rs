//! C19: MT19937 streams and range mappings.
use crate::util::*;
use scad_tree::MersenneTwister;

fn untemper(y0: u32) -> u32 {
    let mut y = y0;
    y ^= y >> 18;
    y ^= (y << 15) & 0xefc60000;
    let mut t = y;
    for _ in 0..5 { t = y ^ ((t << 7) & 0x9d2c5680); }
    y = t;
    let mut t = y;
    for _ in 0..3 { t = y ^ (t >> 11); }
    t
}

/// a generator whose next raw output is `raw` (as long as the tempering is the reference one;
/// the raw value actually produced is returned as well)
fn gen_with_next(raw: u32) -> (MersenneTwister, u32) {
    let mut buf = vec![0u32; 624];
    buf[5] = untemper(raw);
    let g = MersenneTwister::verif_from_state(buf, 5);
    let mut c = g.clone();
    let actual = c.u32();
    (g, actual)
}

pub fn emit(seed: u64, n_streams: usize, stream_len: usize, n_raw: usize) {
    let mut r = Rng::new(seed);
    // ---- streams
    let mut seeds: Vec<u32> = vec![0, 1, 0x80000000, 0xffffffff, 4357, 5489];
    while seeds.len() < n_streams { seeds.push(r.next() as u32); }
    seeds.truncate(n_streams.max(1));
    for s in seeds {
        // a panic while seeding or drawing is itself a failing input (seed, number of outputs drawn so far)
        let drawn = std::sync::Arc::new(std::sync::atomic::AtomicUsize::new(0));
        let d2 = drawn.clone();
        let res = catch(move || {
            let mut g = MersenneTwister::with_seed(s);
            let mut out: Vec<i64> = Vec::with_capacity(stream_len);
            for _ in 0..stream_len { out.push(g.u32() as i64); d2.fetch_add(1, std::sync::atomic::Ordering::SeqCst); }
            out
        });
        match res {
            Some(out) => println!("S ({}%N, {})", s, nl(&out)),
            None => println!("P stream seed={} outputs_drawn_before_the_panic={}", s, drawn.load(std::sync::atomic::Ordering::SeqCst)),
        }
    }
    // ---- raw values through the range maps
    let mut raws: Vec<u32> = Vec::new();
    for k in 0..32u32 { for d in [-2i64, -1, 0, 1, 2] { let v = (1i64 << k) + d; if v >= 0 && v <= 0xffffffff { raws.push(v as u32); } } }
    for d in 0..300u32 { raws.push(0xffffffffu32 - d); raws.push(d); }
    for k in 24..32u32 { // rounding boundaries of u as f32 in each binade
        let step = 1u64 << (k - 23);
        for j in 0..6u64 { let base = (1u64 << k) + (r.below(1 << 23)) * step; for d in [0, step / 2 - 1, step / 2, step / 2 + 1, step - 1] { let v = base + d + j * 0; if v <= 0xffffffff { raws.push(v as u32); } } }
    }
    while raws.len() < n_raw { raws.push(r.next() as u32); }
    for (i, raw) in raws.iter().enumerate() {
        let r0 = *raw;
        let (g0, raw) = match catch(move || gen_with_next(r0)) { Some(x) => x, None => { println!("P raw value={} drawing it from a prepared state panicked", r0); continue; } };
        {   // the four range maps must return for every raw value
            let (a, b, c, d) = (g0.clone(), g0.clone(), g0.clone(), g0.clone());
            if catch(move || { let mut a = a; a.f32_0_1() }).is_none() { println!("P raw value={} f32_0_1 panicked", raw); continue; }
            if catch(move || { let mut b = b; b.i32_minmax(0, 1 << 24) }).is_none() { println!("P raw value={} i32_minmax(0, 2^24) panicked", raw); continue; }
            if catch(move || { let mut c = c; c.f32_minmax(0.0, 1.0) }).is_none() { println!("P raw value={} f32_minmax(0, 1) panicked", raw); continue; }
            if catch(move || { let mut d = d; d.f64_minmax(0.0, 1.0) }).is_none() { println!("P raw value={} f64_minmax(0, 1) panicked", raw); continue; }
        }
        let f = g0.clone().f32_0_1();
        let num = (f as f64 * 4294967296.0) as u64;
        // i32_minmax with max - min <= 2^24
        let d = match i % 5 { 0 => 1 << 24, 1 => 1, 2 => (1 << 24) - 1, 3 => 1 + r.below(1 << 24) as i64, _ => 1 + r.below(1000) as i64 };
        let min = match i % 3 { 0 => 0i64, 1 => -(r.below(1 << 30) as i64), _ => r.below(1 << 30) as i64 };
        let max = min + d;
        let gi = g0.clone(); let (mn32, mx32) = (min as i32, max as i32);
        let iv = match catch(move || { let mut gi = gi; gi.i32_minmax(mn32, mx32) }) { Some(x) => x, None => { println!("P raw value={} i32_minmax({}, {}) panicked", raw, min, max); continue; } };
        println!("R ({}%N, {}%N, {}, {}, {})", raw, num, z(min), z(max), z(iv as i64));
        // f32 / f64 min max: bounds checked by the driver
        let (fmin, fmax) = match i % 4 {
            0 => (0.0f32, 1.0f32), 1 => (-1.5f32, 16777216.0f32),
            2 => { let a = r.cad() as f32; (a, a + (r.cad().abs() as f32) + f32::MIN_POSITIVE) }
            _ => (-(r.cad().abs() as f32), r.cad().abs() as f32 + 1e-3),
        };
        let gf = g0.clone();
        let fv = match catch(move || { let mut gf = gf; gf.f32_minmax(fmin, fmax) }) { Some(x) => x, None => { println!("P raw value={} f32_minmax({:?}, {:?}) panicked", raw, fmin, fmax); continue; } };
        let (dmin, dmax) = match i % 4 {
            0 => (0.0f64, 1.0f64), 1 => (-1.5f64, 9007199254740992.0f64),
            2 => { let a = r.cad(); (a, a + r.cad().abs() + 1e-9) }
            _ => (-r.cad().abs(), r.cad().abs() + 1e-3),
        };
        let gd = g0.clone();
        let dv = match catch(move || { let mut gd = gd; gd.f64_minmax(dmin, dmax) }) { Some(x) => x, None => { println!("P raw value={} f64_minmax({:?}, {:?}) panicked", raw, dmin, dmax); continue; } };
        println!("B {} {:?} {:?} {:?} {:?} {:?} {:?} {:?}", raw, f, fmin, fmax, fv, dmin, dmax, dv);
        println!("D ({}%N, {}, {}, {})", raw, crate::util::f(dmin), crate::util::f(dmax), crate::util::f(dv));
    }
}

fn nl(xs: &[i64]) -> String {
    let v: Vec<String> = xs.iter().map(|x| format!("{}%N", x)).collect();
    format!("[{}]", v.join("; "))
}
