//! C01 / C02 / C13: random and enumerated Scad trees, printed as Coq terms together with the
//! implementation's emission.
use crate::util::*;
use scad_tree::prelude::*;
use scad_tree::{Pt4, Pt4s};

pub fn cstr(s: &str) -> String {
    // a Coq string literal holding the UTF-8 bytes of s
    format!("\"{}\"", s.replace('"', "\"\""))
}
pub fn fnum(x: f64) -> String { format!("(FN {} {})", f(x), cstr(&format!("{}", x))) }
fn nn(x: u64) -> String { format!("{}%N", x) }
fn onum(x: &Option<f64>) -> String { match x { Some(v) => format!("(Some {})", fnum(*v)), None => "None".into() } }
fn on(x: &Option<u64>) -> String { match x { Some(v) => format!("(Some {})", nn(*v)), None => "None".into() } }
/// a text term: a Coq byte-string literal when every byte is harmless in Coq source, a byte list otherwise
pub fn us(s: &str) -> String {
    if s.bytes().any(|b| (b < 32 && b != b'\n') || b == 127) {
        format!("(u8b [{}])", s.bytes().map(|b| format!("{}%N", b)).collect::<Vec<_>>().join("; "))
    } else {
        format!("(u8 {})", cstr(s))
    }
}
fn p2(p: &Pt2) -> String { format!("(P2 {} {})", fnum(p.x), fnum(p.y)) }
fn p3(p: &Pt3) -> String { format!("(P3 {} {} {})", fnum(p.x), fnum(p.y), fnum(p.z)) }
fn p4(p: &Pt4) -> String { format!("(P4 {} {} {} {})", fnum(p.x), fnum(p.y), fnum(p.z), fnum(p.w)) }
fn list<T>(xs: &[T], g: impl Fn(&T) -> String) -> String { format!("[{}]", xs.iter().map(g).collect::<Vec<_>>().join("; ")) }
fn idx(i: &Indices) -> String { list(&i[..], |x| nn(*x)) }
fn paths(p: &Paths) -> String { list(&p[..], idx) }

pub fn enum_index<T: std::fmt::Debug>(v: &T, names: &[&str]) -> u64 {
    let n = format!("{:?}", v);
    names.iter().position(|x| *x == n).unwrap_or(9999) as u64
}

pub fn op_term(op: &ScadOp, color_names: &[String]) -> String {
    match op {
        ScadOp::Union => "Union".into(), ScadOp::Difference => "Difference".into(), ScadOp::Intersection => "Intersection".into(),
        ScadOp::Hull => "Hull".into(),
        ScadOp::Circle { radius, fa, fs, fn_ } => format!("(Circle {} {} {} {})", fnum(*radius), onum(fa), onum(fs), on(fn_)),
        ScadOp::Square { size, center } => format!("(Square {} {})", p2(size), b(*center)),
        ScadOp::Polygon { points, paths: ps, convexity } => format!("(Polygon {} {} {})", list(&points[..], p2),
            match ps { Some(p) => format!("(Some {})", paths(p)), None => "None".into() }, nn(*convexity)),
        ScadOp::Text { text, size, font, halign, valign, spacing, direction, language, script, fn_ } =>
            format!("(Text {} {} {} {} {} {} {} {} {} {})", us(text), fnum(*size), us(font),
                nn(enum_index(halign, &["left", "center", "right"])), nn(enum_index(valign, &["top", "center", "baseline", "bottom"])),
                fnum(*spacing), nn(enum_index(direction, &["ltr", "rtl", "ttb", "btt"])), us(language), us(script), on(fn_)),
        ScadOp::Import { file, convexity } => format!("(Import {} {})", us(file), nn(*convexity)),
        ScadOp::Projection { cut } => format!("(Projection {})", b(*cut)),
        ScadOp::Sphere { radius, fa, fs, fn_ } => format!("(Sphere {} {} {} {})", fnum(*radius), onum(fa), onum(fs), on(fn_)),
        ScadOp::Cube { size, center } => format!("(Cube {} {})", p3(size), b(*center)),
        ScadOp::Cylinder { height, radius1, radius2, center, fa, fs, fn_ } =>
            format!("(Cylinder {} {} {} {} {} {} {})", fnum(*height), fnum(*radius1), fnum(*radius2), b(*center), onum(fa), onum(fs), on(fn_)),
        ScadOp::Polyhedron { points, faces, convexity } => format!("(Polyhedron {} {} {})", list(&points[..], p3), paths(faces), nn(*convexity)),
        ScadOp::LinearExtrude { height, center, convexity, twist, scale, slices, fn_ } =>
            format!("(LinearExtrude {} {} {} {} {} {} {})", fnum(*height), b(*center), nn(*convexity), fnum(*twist), p2(scale), on(slices), on(fn_)),
        ScadOp::RotateExtrude { angle, convexity, fa, fs, fn_ } =>
            format!("(RotateExtrude {} {} {} {} {})", fnum(*angle), nn(*convexity), onum(fa), onum(fs), on(fn_)),
        ScadOp::Surface { file, center, invert, convexity } => format!("(Surface {} {} {} {})", us(file), b(*center), b(*invert), nn(*convexity)),
        ScadOp::Translate { v } => format!("(Translate {})", p3(v)),
        ScadOp::Rotate { a, a_is_scalar, v } => format!("(Rotate {} {} {})", onum(a), b(*a_is_scalar), p3(v)),
        ScadOp::Scale { v } => format!("(Scale {})", p3(v)),
        ScadOp::Resize { newsize, auto, auto_is_vec, autovec, convexity } =>
            format!("(Resize {} {} {} ({}, {}, {}) {})", p3(newsize), b(*auto), b(*auto_is_vec), b(autovec.0), b(autovec.1), b(autovec.2), nn(*convexity)),
        ScadOp::Mirror { v } => format!("(Mirror {})", p3(v)),
        ScadOp::Color { rgba, color, hex, alpha } => format!("(Color {} {} {} {})",
            match rgba { Some(p) => format!("(Some {})", p4(p)), None => "None".into() },
            match color { Some(c) => { let n = format!("{:?}", c); format!("(Some {}%N)", color_names.iter().position(|x| *x == n).unwrap_or(9999)) } None => "None".into() },
            match hex { Some(h) => format!("(Some {})", us(h)), None => "None".into() }, onum(alpha)),
        ScadOp::Offset { r, delta, chamfer } => format!("(Offset {} {} {})", onum(r), onum(delta), b(*chamfer)),
        ScadOp::Minkowski { convexity } => format!("(Minkowski {})", nn(*convexity)),
    }
}

pub fn tree_term(t: &Scad, cn: &[String]) -> String {
    format!("(Node {} {})", op_term(&t.op, cn), list(&t.children[..], |c| tree_term(c, cn)))
}

// ---------------------------------------------------------------- generators
pub fn num(r: &mut Rng) -> f64 {
    match r.below(12) {
        0 => *r.pick(&[0.0, -0.0, 1.0, -1.0, 0.5, 10.0, 360.0]),
        1 => *r.pick(&[5e-324, -5e-324, 2.2250738585072014e-308, 2.225073858507201e-308, 1.7976931348623157e308, -1.7976931348623157e308]),
        2 => *r.pick(&[1e21, 1e22, 1e-7, 0.1 + 0.2, 9007199254740993.0, 9007199254740991.0, 1e15, 1e16, 1e17, 123456789.125, 0.1, 0.2, 0.3, 1.0 / 3.0]),
        3 => f64::from_bits(r.next() & 0x7fefffffffffffff | ((r.next() & 1) << 63)),   // random finite bit pattern
        4 => (r.range(-100000, 100000) as f64) / 1000.0,
        _ => r.cad(),
    }
}
fn finite(x: f64) -> f64 { if x.is_finite() { x } else { 1.0 } }
pub fn num_f(r: &mut Rng) -> f64 { let x = num(r); finite(x) }
pub fn u(r: &mut Rng) -> u64 {
    match r.below(10) { 0 => 0, 1 => 1, 2 => 1 << 32, 3 => 1 << 53, 4 => r.next() >> 12, _ => r.below(200) }
}
pub fn string(r: &mut Rng) -> String {
    let samples: [&str; 16] = ["", "hello", "Liberation Sans", "a\"b", "back\\slash", "tab\there", "line\nbreak", "cr\rx",
        "caf\u{e9}", "cafe\u{301}", "\u{915}\u{94d}\u{937}\u{93f}", "\u{1f600} emoji", "zero\u{200b}width", "ctrl\u{1}\u{7f}x", "model/part 1.stl", "\\n not newline"];
    match r.below(5) {
        0 | 1 => samples[r.below(16) as usize].to_string(),
        4 => { // several characters that need escaping, separated by short runs incl. multi-byte characters
            let k = 2 + r.below(5);
            let mut out = String::new();
            for _ in 0..k {
                for _ in 0..r.below(4) { out.push(*r.pick(&['a', 'Z', '7', ' ', '/', '.', '\u{e9}', '\u{4e2d}', '\u{1f600}'])); }
                out.push(*r.pick(&['"', '\\', '\n', '\t', '\r', '"', '\\']));
            }
            for _ in 0..r.below(3) { out.push(*r.pick(&['x', '\u{e9}', '!'])); }
            out }
        2 => { // random printable ascii incl quotes/backslashes
            let n = r.below(12); (0..n).map(|_| (32 + r.below(95)) as u8 as char).collect() }
        _ => { // random scalar values without NUL
            let n = r.below(8);
            (0..n).map(|_| loop { let c = match r.below(4) { 0 => 1 + r.below(0x7f), 1 => 0x80 + r.below(0x780), 2 => 0x800 + r.below(0xf800), _ => 0x10000 + r.below(0x100000) } as u32;
                if let Some(ch) = char::from_u32(c) { break ch; } }).collect() }
    }
}
fn opt<T>(r: &mut Rng, v: T) -> Option<T> { if r.coin() { Some(v) } else { None } }
fn pt2(r: &mut Rng) -> Pt2 {
    match r.below(8) {
        0 => *r.pick(&[Pt2::new(0.0, 0.0), Pt2::new(1.0, 1.0), Pt2::new(-0.0, 0.0), Pt2::new(1.0, 0.0), Pt2::new(0.0, 1.0)]),
        _ => Pt2::new(num_f(r), num_f(r)),
    }
}
fn pt3(r: &mut Rng) -> Pt3 {
    // structured vectors: the identity / no-op arguments of transforms must be emitted like any other
    match r.below(6) {
        0 => *r.pick(&[Pt3::new(0.0, 0.0, 0.0), Pt3::new(1.0, 1.0, 1.0), Pt3::new(-0.0, 0.0, -0.0), Pt3::new(0.0, 0.0, 1.0),
                       Pt3::new(1.0, 0.0, 0.0), Pt3::new(0.0, 1.0, 0.0), Pt3::new(0.0, 0.0, -1.0), Pt3::new(360.0, 0.0, 0.0)]),
        _ => Pt3::new(num_f(r), num_f(r), num_f(r)),
    }
}
/// a list in which, one time in three, elements repeat (next to each other and apart): emission must write every element
fn rep_list<T: Clone>(r: &mut Rng, n: u64, mut g: impl FnMut(&mut Rng) -> T) -> Vec<T> {
    let repeats = r.below(3) == 0; let mut v: Vec<T> = Vec::new();
    for _ in 0..n { let x = if repeats && !v.is_empty() && r.coin() { if r.coin() { v[v.len() - 1].clone() } else { v[r.below(v.len() as u64) as usize].clone() } } else { g(r) }; v.push(x); }
    v
}
fn indices(r: &mut Rng) -> Indices { let n = r.below(6); Indices::from_indices(rep_list(r, n, u)) }
fn pathsg(r: &mut Rng) -> Paths { let n = r.below(5); Paths::from_paths((0..n).map(|_| indices(r)).collect()) }

pub const N_KINDS: u64 = 25;
pub fn gen_op(r: &mut Rng, kind: u64, colors: &[ScadColor]) -> ScadOp {
    match kind {
        0 => ScadOp::Union, 1 => ScadOp::Difference, 2 => ScadOp::Intersection, 3 => ScadOp::Hull,
        4 => ScadOp::Circle { radius: num_f(r), fa: { let v = num_f(r); opt(r, v) }, fs: { let v = num_f(r); opt(r, v) }, fn_: { let v = u(r); opt(r, v) } },
        5 => ScadOp::Square { size: pt2(r), center: r.coin() },
        6 => ScadOp::Polygon { points: { let n = r.below(6); Pt2s::from_pt2s(rep_list(r, n, pt2)) }, paths: { let p = pathsg(r); opt(r, p) }, convexity: u(r) },
        7 => ScadOp::Text { text: string(r), size: num_f(r), font: string(r),
                halign: *r.pick(&[TextHalign::left, TextHalign::center, TextHalign::right]),
                valign: *r.pick(&[TextValign::top, TextValign::center, TextValign::baseline, TextValign::bottom]),
                spacing: num_f(r), direction: *r.pick(&[TextDirection::ltr, TextDirection::rtl, TextDirection::ttb, TextDirection::btt]),
                language: string(r), script: string(r), fn_: { let v = u(r); opt(r, v) } },
        8 => ScadOp::Import { file: string(r), convexity: u(r) },
        9 => ScadOp::Projection { cut: r.coin() },
        10 => ScadOp::Sphere { radius: num_f(r), fa: { let v = num_f(r); opt(r, v) }, fs: { let v = num_f(r); opt(r, v) }, fn_: { let v = u(r); opt(r, v) } },
        11 => ScadOp::Cube { size: pt3(r), center: r.coin() },
        12 => ScadOp::Cylinder { height: num_f(r), radius1: num_f(r), radius2: num_f(r), center: r.coin(),
                fa: { let v = num_f(r); opt(r, v) }, fs: { let v = num_f(r); opt(r, v) }, fn_: { let v = u(r); opt(r, v) } },
        13 => ScadOp::Polyhedron { points: { let n = r.below(7); Pt3s::from_pt3s(rep_list(r, n, pt3)) }, faces: pathsg(r), convexity: u(r) },
        14 => ScadOp::LinearExtrude { height: num_f(r), center: r.coin(), convexity: u(r), twist: num_f(r), scale: pt2(r),
                slices: { let v = u(r); opt(r, v) }, fn_: { let v = u(r); opt(r, v) } },
        15 => ScadOp::RotateExtrude { angle: num_f(r), convexity: u(r), fa: { let v = num_f(r); opt(r, v) }, fs: { let v = num_f(r); opt(r, v) }, fn_: { let v = u(r); opt(r, v) } },
        16 => ScadOp::Surface { file: string(r), center: r.coin(), invert: r.coin(), convexity: u(r) },
        17 => ScadOp::Translate { v: pt3(r) },
        18 => ScadOp::Rotate { a: { let v = num_f(r); opt(r, v) }, a_is_scalar: r.coin(), v: pt3(r) },
        19 => ScadOp::Scale { v: pt3(r) },
        20 => ScadOp::Resize { newsize: pt3(r), auto: r.coin(), auto_is_vec: r.coin(), autovec: (r.coin(), r.coin(), r.coin()), convexity: u(r) },
        21 => ScadOp::Mirror { v: pt3(r) },
        // every combination of the optional fields, also the ones no macro builds (several set at once, none set)
        22 => { let rgba = if r.below(3) == 0 { Some(Pt4::new(num_f(r), num_f(r), num_f(r), num_f(r))) } else { None };
                let color = if r.below(2) == 0 { Some(*r.pick(colors)) } else { None };
                let hex = if r.below(2) == 0 { Some(format!("#{:06x}", r.below(1 << 24))) } else { None };
                let alpha = { let v = num_f(r); opt(r, v) };
                ScadOp::Color { rgba, color, hex, alpha } },
        23 => { let rr = { let v = num_f(r); opt(r, v) }; let delta = { let v = num_f(r); opt(r, v) };
                ScadOp::Offset { r: rr, delta, chamfer: r.coin() } },
        _ => ScadOp::Minkowski { convexity: u(r) },
    }
}
pub fn is_leaf(kind: u64) -> bool { matches!(kind, 4 | 5 | 6 | 7 | 8 | 10 | 11 | 12 | 13 | 16) }

pub fn gen_tree(r: &mut Rng, depth: u32, colors: &[ScadColor]) -> Scad {
    let kind = if depth == 0 { *r.pick(&[4u64, 5, 6, 7, 8, 10, 11, 12, 13, 16, 0, 22, 17]) } else { r.below(N_KINDS) };
    let op = gen_op(r, kind, colors);
    let children = if is_leaf(kind) || depth == 0 { Vec::new() } else {
        let n = match r.below(6) { 0 => 0, 1 | 2 => 1, 3 => 2, _ => r.below(5) };
        (0..n).map(|_| gen_tree(r, depth - 1, colors)).collect()
    };
    Scad { op, children }
}

pub fn all_colors() -> (Vec<ScadColor>, Vec<String>) {
    // variants are recovered from the source-regenerated name list by probing Debug output of transmuted indices is not
    // possible safely; instead use the Viewer-independent list below, cross-checked against coq/Gen/Enums.v by the driver.
    let v = crate::colors::ALL.to_vec();
    let names = v.iter().map(|c| format!("{:?}", c)).collect();
    (v, names)
}

pub fn emit(seed: u64, n: usize, color_names_file: &str) {
    let mut r = Rng::new(seed);
    let (colors, _) = all_colors();
    let _ = color_names_file;
    let cn: Vec<String> = colors.iter().map(|c| format!("{:?}", c)).collect();
    let mut count = 0;
    // systematic pass: every kind, several times, as single nodes with 0 or 1 children
    let mut emit_case = |trees: Vec<Scad>| {
        let ts2 = trees.clone();
        let txt = catch(move || ts2.iter().map(|t| format!("{}", t)).collect::<String>());
        let impl_s = match txt { Some(s) => format!("(Some {})", us(&s)), None => "None".into() };
        // class of the input (for the known-findings selector): does some primitive (leaf operation) carry children?
        fn prim_with_children(t: &Scad) -> bool {
            let leaf = matches!(t.op, ScadOp::Circle { .. } | ScadOp::Square { .. } | ScadOp::Polygon { .. } | ScadOp::Text { .. } | ScadOp::Import { .. } | ScadOp::Sphere { .. }
                                      | ScadOp::Cube { .. } | ScadOp::Cylinder { .. } | ScadOp::Polyhedron { .. } | ScadOp::Surface { .. });
            (leaf && !t.children.is_empty()) || t.children.iter().any(prim_with_children)
        }
        let cls = if trees.iter().any(prim_with_children) { "primitive_with_children" } else { "ordinary" };
        println!("@@CASE@@ T\n({}, {})\n@@CLS@@ {}", list(&trees[..], |t| tree_term(t, &cn)), impl_s, cls);
    };
    for rep in 0..6 {
        for kind in 0..N_KINDS {
            if count >= n { break; }
            let op = gen_op(&mut r, kind, &colors);
            let children = if is_leaf(kind) || rep % 2 == 0 { vec![] } else { vec![gen_tree(&mut r, 0, &colors)] };
            emit_case(vec![Scad { op, children }]);
            count += 1;
        }
    }
    // identity corpus: every operator and transform with the arguments that do nothing (zero offsets, unit factors, zero or full
    // angles, zero sizes, alpha 1), once on its own with one child and once with two children inside a union with a sibling after
    // it: an emitter that skips or shortens a "no-op" node shows only there
    {
        let z3 = Pt3::new(0.0, 0.0, 0.0); let o3 = Pt3::new(1.0, 1.0, 1.0); let nz3 = Pt3::new(-0.0, 0.0, -0.0);
        let ident: Vec<ScadOp> = vec![
            ScadOp::Translate { v: z3 }, ScadOp::Translate { v: nz3 },
            ScadOp::Rotate { a: Some(0.0), a_is_scalar: true, v: Pt3::new(0.0, 0.0, 1.0) }, ScadOp::Rotate { a: None, a_is_scalar: false, v: z3 },
            ScadOp::Rotate { a: Some(360.0), a_is_scalar: true, v: z3 }, ScadOp::Rotate { a: Some(0.0), a_is_scalar: false, v: z3 },
            ScadOp::Scale { v: o3 }, ScadOp::Scale { v: z3 },
            ScadOp::Resize { newsize: z3, auto: false, auto_is_vec: false, autovec: (false, false, false), convexity: 0 },
            ScadOp::Resize { newsize: z3, auto: true, auto_is_vec: true, autovec: (false, false, false), convexity: 1 },
            ScadOp::Mirror { v: z3 }, ScadOp::Mirror { v: Pt3::new(1.0, 0.0, 0.0) },
            ScadOp::Color { rgba: None, color: Some(colors[0]), hex: None, alpha: Some(1.0) }, ScadOp::Color { rgba: None, color: Some(colors[0]), hex: None, alpha: Some(0.0) },
            ScadOp::Color { rgba: Some(Pt4::new(0.0, 0.0, 0.0, 0.0)), color: None, hex: None, alpha: None }, ScadOp::Color { rgba: Some(Pt4::new(1.0, 1.0, 1.0, 1.0)), color: None, hex: None, alpha: None },
            ScadOp::Color { rgba: None, color: None, hex: Some("#000000".to_string()), alpha: None },
            ScadOp::Offset { r: Some(0.0), delta: None, chamfer: false }, ScadOp::Offset { r: None, delta: Some(0.0), chamfer: false }, ScadOp::Offset { r: None, delta: Some(0.0), chamfer: true },
            ScadOp::LinearExtrude { height: 0.0, center: false, convexity: 0, twist: 0.0, scale: Pt2::new(1.0, 1.0), slices: None, fn_: None },
            ScadOp::LinearExtrude { height: 1.0, center: true, convexity: 1, twist: 360.0, scale: Pt2::new(0.0, 0.0), slices: Some(0), fn_: Some(0) },
            ScadOp::RotateExtrude { angle: 360.0, convexity: 0, fa: None, fs: None, fn_: None }, ScadOp::RotateExtrude { angle: 0.0, convexity: 1, fa: Some(0.0), fs: Some(0.0), fn_: Some(0) },
            ScadOp::Projection { cut: false }, ScadOp::Projection { cut: true }, ScadOp::Minkowski { convexity: 0 }, ScadOp::Minkowski { convexity: 1 },
            ScadOp::Union, ScadOp::Difference, ScadOp::Intersection, ScadOp::Hull,
        ];
        let leaf = |k: u64| Scad { op: if k == 0 { ScadOp::Sphere { radius: 1.0, fa: None, fs: None, fn_: None } } else { ScadOp::Cube { size: o3, center: false } }, children: vec![] };
        for op in ident.iter() {
            if count + 2 > n { break; }
            emit_case(vec![Scad { op: op.clone(), children: vec![leaf(0)] }]);
            emit_case(vec![Scad { op: ScadOp::Union, children: vec![Scad { op: op.clone(), children: vec![leaf(1), leaf(0)] }, leaf(0)] }]);
            count += 2;
        }
    }
    // every colour once
    for c in colors.iter() {
        if count >= n { break; }
        emit_case(vec![Scad { op: ScadOp::Color { rgba: None, color: Some(*c), hex: None, alpha: None }, children: vec![] }]);
        count += 1;
    }
    while count < n {
        let k = match r.below(5) { 0 => 2, 1 => 3, _ => 1 };
        let trees: Vec<Scad> = (0..k).map(|_| { let d = r.below(4) as u32; gen_tree(&mut r, d, &colors) }).collect();
        emit_case(trees);
        count += 1;
    }
    // numbers: bits and Rust's literal, for the read-back check
    for _ in 0..(n * 2) {
        let x = num_f(&mut r);
        println!("@@CASE@@ N\n({}, s2t {})", f(x), cstr(&format!("{}", x)));
    }
    let _ = Pt4s::new();
}
